"""
C06  The CIF text layer returns every string table unchanged; File / Block /
Category / Column containers of the text and the binary flavour behave as
mutable mappings before and after lazy parsing.

Oracles
-------
* tables: the table itself.  After ``CIFFile.deserialize(f.serialize())`` and
  after ``write``/``read`` on a StringIO the block, category and column names
  come back in the same order, ``as_array(str)`` gives the same strings and the
  mask has the same MaskValue per row (``mask is None`` == all PRESENT).  By the
  data model a present value that is exactly '.' or '?' *is* a masked value, so
  such cells are generated as masked only.
* containers: a nested ``dict`` (file -> block -> category(rows, cols) ->
  column).  An op-list is interpreted on the real container and on the dict;
  after every step the real file is compared shallowly (keys/len, no lazy child
  is touched) and a serialise -> deserialise *snapshot* of it is compared deeply
  with the dict, so the real object keeps its lazy children for the next op.
  Where neither the property nor a docstring fixes the answer, every conforming
  answer is accepted and recorded as a label (deleting the last column of a
  category: ValueError or done; a file holding a category without columns:
  refused or written; a child stored under a second key: by reference or
  copied; a child of the wrong level / a serialised dict as value: refused or
  taken; "no mask" vs. an all-PRESENT mask: the same table) - on each branch
  the state afterwards is still compared with the model.
"""

import copy
import io
import numpy as np

from hypothesis import strategies as st

from vlib import Enum, Outcome, Sub, findings

PROPERTY = "C06"
RULE = (
    "tables: 1..4 columns x 1..5 rows of strings over an alphabet over-weighting blank, tab, both "
    "quotes, leading _ # ; $ [ ], newline, reserved words (any case), '.'/'?' inside longer strings and "
    "the empty string, with all three mask states (printable strings only: characters for which "
    "str.isprintable() is False other than blank/tab/newline - NBSP, form feed, CR, other Unicode "
    "white space - are outside the quantifier and not generated; names in one container differ in "
    "more than case); non-trivial = looped (>= 2 rows) and >= 1 value that "
    "must be quoted or written as text field.  containers: op-lists of set/get/del/iter/len/contains/"
    "==/keys/items/pop/setdefault/update/clear interleaved with serialise->deserialise; non-trivial = "
    ">= 1 successful delete or set "
    "on a container reached through lazily parsed children after a round trip"
)

F1 = "C06-F1"
F2 = "C06-F2"
F3 = "C06-F3"

RESERVED = ("data_", "loop_", "save_", "global_", "stop_")
SPECIAL_START = "_#$[];"


# --------------------------------------------------------------------------
# classification of values (used for labels, narrowing and finding predicates)
# --------------------------------------------------------------------------
def is_text_field(v):
    """Values the serialiser has to write as a ;-delimited text field."""
    return "\n" in v or ("'" in v and '"' in v)


def needs_quoting(v):
    if v in (".", "?"):
        return False
    return (
        v == ""
        or is_text_field(v)
        or any(c in v for c in " \t'\"")
        or v[0] in SPECIAL_START
        or v.lower().startswith(RESERVED)
    )


def in_f1(v):
    """Open finding C06-F1: content of a text field that the line-wise parser drops silently:
    trailing blanks of any line; leading blanks, emptiness or a leading '#' of a continuation line."""
    if not is_text_field(v):
        return False
    lines = v.split("\n")
    if any(l != l.rstrip(" \t") for l in lines):
        return True
    return any(l == "" or l != l.lstrip(" \t") or l.startswith("#") for l in lines[1:])


def in_f2(v):
    """Open finding C06-F2: a continuation line of a text field that starts with ';' (after blanks,
    which the parser strips first) ends the text field early."""
    if not is_text_field(v):
        return False
    return any(l.lstrip(" \t").startswith(";") for l in v.split("\n")[1:])


def narrow(v, always_f2=False):
    """Map a value out of the input classes of the *open* findings (by construction, no filter).

    Returns (value, [ids of the findings the original value belonged to]).  With `always_f2` the
    C06-F2 class is left even when that finding is closed (container histories: a closed F2 may
    mean that such a value is refused at serialisation, which is not what the histories are about)."""
    hit = []
    if (always_f2 or findings.is_open(F2)) and in_f2(v):
        if findings.is_open(F2):
            hit.append(F2)
        lines = v.split("\n")
        v = "\n".join([lines[0]] + [("x" + l.lstrip(" \t")) if l.lstrip(" \t").startswith(";") else l for l in lines[1:]])
    if findings.is_open(F1) and in_f1(v):
        hit.append(F1)
        lines = [l.rstrip(" \t") for l in v.split("\n")]
        out = [lines[0]]
        for l in lines[1:]:
            l = l.lstrip(" \t")
            if l == "" or l.startswith("#"):
                l = "x" + l
            out.append(l)
        v = "\n".join(out)
        if findings.is_open(F2) and in_f2(v):  # cannot happen: F2 lines were prefixed before
            raise AssertionError(v)
    return v, hit


def _case_values(case):
    """All strings that are *written* by a case of any sub-check (for the finding predicates):
    the tables / the initial file and the ops.  Descriptive entries such as ``token`` (the
    un-narrowed token of an enumeration case) are not looked at."""
    found = []
    case = [case.get("blocks"), case.get("init"), case.get("ops")] if isinstance(case, dict) else case

    def walk(x):
        if isinstance(x, str):
            found.append(x)
        elif isinstance(x, dict):
            for v in x.values():
                walk(v)
        elif isinstance(x, (list, tuple)):
            for v in x:
                walk(v)

    walk(case)
    return found


ROUNDTRIP_CLAUSES = {
    "values_unchanged",
    "masks_unchanged",
    "same_rows",
    "names_and_order",
    "second_roundtrip",
    "unexpected_exception",
    "snapshot_equals_model",
}


def match_f1(sub, case, clause, message):
    # content is lost, the file still parses: value clauses only
    if clause not in ("values_unchanged", "masks_unchanged", "second_roundtrip", "snapshot_equals_model"):
        return False
    return any(in_f1(v) for v in _case_values(case))


def match_f2(sub, case, clause, message):
    if clause not in ROUNDTRIP_CLAUSES:
        return False
    return any(in_f2(v) for v in _case_values(case))


def match_f3(sub, case, clause, message):
    return (
        sub == "bcif_containers"
        and clause == "equality"
        and case.get("prime_fresh") is False
        and ("freshly built equal container" in message or "!= is True for equal containers" in message)
    )


FINDINGS = {
    "multiline_content_dropped": match_f1,
    "multiline_line_starts_with_semicolon": match_f2,
    "bcif_equality_depends_on_resolved_encodings": match_f3,
}


# --------------------------------------------------------------------------
# value strategies
# --------------------------------------------------------------------------
RESERVED_TOKENS = [
    "data_", "loop_", "save_", "global_", "stop_",
    "DATA_", "Loop_", "SAVE_", "GLOBAL_", "sToP_", "data_x", "LOOP_x", "save_1",
]  # fmt: skip


# Values are drawn as (optional reserved word) + text over an alphabet in which two thirds of the
# characters are awkward ones; this is ~4x cheaper to generate than a list of tokens.
VALUE_ALPHABET = " \t'\"_#;$[]\n.?" + "aB1-é,x\\/:"
VALUE_PREFIXES = [""] * 12 + RESERVED_TOKENS + ["data", "loop"]


def st_raw_value(max_len=5):
    return st.tuples(st.sampled_from(VALUE_PREFIXES), st.text(VALUE_ALPHABET, max_size=max_len)).map("".join)


def _make_cell(t):
    state, raw = t
    v, hit = narrow(raw)
    if state == 0 and v == ".":
        state = 1
    elif state == 0 and v == "?":
        state = 2
    return [state, v, hit]


def st_cell(max_len=5):
    """[state, text, narrowed ids]; state 0 present, 1 inapplicable, 2 missing."""
    return st.tuples(st.sampled_from([0, 0, 0, 0, 0, 0, 1, 2]), st_raw_value(max_len)).map(_make_cell)


def _name_pool():
    base = ["a", "atom_site", "_x", "__y", "B[1][2]", "x-y", "data_", "loop_", "Z", "z", "0", "A", "entity_poly", "U[1][1]",
            "-", "_", "[", "]", "a_", "save_x", "stop_", "global_", "9z", "Az09", "x_[1]-2", "pdbx_seq_one_letter_code"]  # fmt: skip
    # plus every 2-letter name over a small alphabet containing all character kinds
    small = "aZ0_[]-"
    return base + [p + q for p in small for q in small]


NAME_POOL = _name_pool()


def st_tables(tier):
    shape_cat = st.tuples(st.integers(1, 4), st.sampled_from([1, 1, 2, 2, 3, 3, 4, 5]), st.booleans())
    shape_block = st.lists(shape_cat, min_size=1, max_size=3)
    shape = st.lists(shape_block, min_size=1, max_size=2)
    max_len = 5 if tier == "quick" else 9

    @st.composite
    def gen(draw):
        sh = draw(shape)
        n_cells = sum(ncol * nrow for blk in sh for ncol, nrow, _ in blk)
        n_names = len(sh) + sum(len(blk) for blk in sh) + sum(ncol for blk in sh for ncol, _, _ in blk)
        cells = draw(st.lists(st_cell(max_len), min_size=n_cells, max_size=n_cells))
        # raw indices into NAME_POOL; a clash inside one container moves on to the next free name
        raw_names = iter(draw(st.lists(st.integers(0, len(NAME_POOL) - 1), min_size=n_names, max_size=n_names)))
        cells = iter(cells)

        def fresh(used):
            # (names differing only in case count as a clash: CIF data names are case-insensitive
            # by the format definition, so two of them in one container are not asked for)
            i = next(raw_names)
            while NAME_POOL[i].lower() in used:
                i = (i + 1) % len(NAME_POOL)
            used.add(NAME_POOL[i].lower())
            return NAME_POOL[i]

        blocks = []
        used_blocks = set()
        for blk in sh:
            cats = []
            used_cats = set()
            for ncol, nrow, explicit in blk:
                used_cols = set()
                cols = [
                    {"name": fresh(used_cols), "cells": [next(cells) for _ in range(nrow)], "explicit_mask": explicit and j % 2 == 0}
                    for j in range(ncol)
                ]
                cats.append({"name": fresh(used_cats), "cols": cols})
            blocks.append({"name": fresh(used_blocks), "cats": cats})
        return _finish_table_case({"blocks": blocks})

    return gen()


def _finish_table_case(case):
    """Move the per-cell narrowing notes into one list (cells become [state, text])."""
    hits = []
    for b in case["blocks"]:
        for c in b["cats"]:
            for col in c["cols"]:
                for cell in col["cells"]:
                    if len(cell) == 3:
                        hits.extend(cell.pop())
    case["narrowed"] = sorted(hits)
    return case


# --------------------------------------------------------------------------
# (a) + (b): table round trip
# --------------------------------------------------------------------------
MASK_SYMBOL = {1: ".", 2: "?"}


def _build_cif_file(blocks):
    import numpy as np

    from biotite.structure.io.pdbx import CIFBlock, CIFCategory, CIFColumn, CIFFile

    bdict = {}
    for b in blocks:
        cdict = {}
        for c in b["cats"]:
            cols = {}
            for col in c["cols"]:
                states = [cell[0] for cell in col["cells"]]
                texts = [cell[1] for cell in col["cells"]]
                if col["explicit_mask"]:
                    cols[col["name"]] = CIFColumn(texts, np.array(states, dtype=np.uint8))
                else:
                    data = [t if s == 0 else MASK_SYMBOL[s] for s, t in zip(states, texts)]
                    cols[col["name"]] = CIFColumn(data)
            cdict[c["name"]] = CIFCategory(cols)
        bdict[b["name"]] = CIFBlock(cdict)
    return CIFFile(bdict)


def _expected_column(col):
    states = [cell[0] for cell in col["cells"]]
    strings = [cell[1] if cell[0] == 0 else MASK_SYMBOL[cell[0]] for cell in col["cells"]]
    return strings, states


def _compare_cif_file(o, f, blocks, how, clause_override=None):
    """Compare a parsed CIFFile with the table spec.  Returns False as soon as the structure differs."""

    def cl(name):
        return clause_override or name

    if not o.check_eq(list(f.keys()), [b["name"] for b in blocks], cl("names_and_order"), f"{how}: block names"):
        return False
    for b in blocks:
        blk = f[b["name"]]
        if not o.check_eq(
            list(blk.keys()), [c["name"] for c in b["cats"]], cl("names_and_order"), f"{how}: categories of block {b['name']!r}"
        ):
            return False
        for c in b["cats"]:
            if not _compare_cif_category(o, blk[c["name"]], c, f"{how}: {b['name']!r}/{c['name']!r}", cl):
                return False
    return True


def _compare_cif_category(o, cat, c, where, cl):
    """Compare a parsed CIFCategory with its table spec.  Returns False if the column names differ."""
    if not o.check_eq(list(cat.keys()), [col["name"] for col in c["cols"]], cl("names_and_order"), f"{where} columns"):
        return False
    nrow = len(c["cols"][0]["cells"])
    o.check_eq(cat.row_count, nrow, cl("same_rows"), f"{where} row_count")
    for col in c["cols"]:
        want, states = _expected_column(col)
        column = cat[col["name"]]
        got = column.as_array(str).tolist()
        o.check_eq(got, want, cl("values_unchanged"), f"{where}/{col['name']!r}")
        # the other spellings of "a string dtype" give the same strings
        for spelling, dt in (("np.str_", np.str_), ("'U'", "U"), ("np.dtype(str)", np.dtype(str))):
            o.check_eq(column.as_array(dt).tolist(), want, cl("values_unchanged"), f"{where}/{col['name']!r} as_array({spelling})")
        o.check_eq(
            column.as_array(np.str_, masked_value="~").tolist(),
            [w if st == 0 else "~" for w, st in zip(want, states)],
            cl("values_unchanged"),
            f"{where}/{col['name']!r} as_array(np.str_, masked_value='~')",
        )
        gmask = [0] * len(column) if column.mask is None else [int(m) for m in column.mask.array.tolist()]
        o.check_eq(gmask, states, cl("masks_unchanged"), f"{where}/{col['name']!r} mask")
        if nrow == 1 and len(got) == 1:
            o.check_eq(column.as_item(), want[0], cl("values_unchanged"), f"{where}/{col['name']!r} as_item")
    return True


def _label_tables(o, case):
    blocks = case["blocks"]
    o.label(f"blocks={len(blocks)}")
    quoting_looped = False
    kinds = set()
    for b in blocks:
        o.label(f"cats={len(b['cats'])}")
        for c in b["cats"]:
            nrow = len(c["cols"][0]["cells"])
            ncol = len(c["cols"])
            kinds.add("looped" if nrow > 1 else "single_row")
            kinds.add(f"rows={nrow}" if nrow < 60 else "rows>=128" if nrow >= 128 else "rows=60..127")
            if nrow >= 128:
                flat = [v for col in c["cols"] for state, v in col["cells"] if state == 0]
                if any("\n" in v for v in flat) and not any("'" in v or '"' in v for v in flat):
                    kinds.add("rows>=128,text_field,no_quote_char")
            kinds.add(f"cols={ncol}")
            for j, col in enumerate(c["cols"]):
                if col["explicit_mask"]:
                    kinds.add("explicit_mask")
                for state, v in col["cells"]:
                    if state:
                        kinds.add(f"masked_{MASK_SYMBOL[state]}")
                        continue
                    if needs_quoting(v):
                        kinds.add("needs_quoting")
                        if nrow > 1:
                            quoting_looped = True
                            kinds.add("quoted_first_col" if j == 0 else "quoted_other_col")
                    if v == "":
                        kinds.add("v:empty")
                    else:
                        if is_text_field(v):
                            kinds.add("v:text_field")
                        if "\n" in v:
                            kinds.add("v:newline")
                        if "'" in v and '"' in v:
                            kinds.add("v:both_quotes")
                        elif "'" in v or '"' in v:
                            kinds.add("v:one_quote")
                        if " " in v:
                            kinds.add("v:blank")
                        if "\t" in v:
                            kinds.add("v:tab")
                        if v[0] in SPECIAL_START:
                            kinds.add("v:lead_" + v[0])
                        if v.lower().startswith(RESERVED):
                            kinds.add("v:reserved")
                        if len(v) > 1 and ("." in v or "?" in v):
                            kinds.add("v:dot_or_qm_inside")
    o.label(*sorted(kinds))
    o.mark_nontrivial(quoting_looped)


def run_table_roundtrip(case):
    from biotite.file import SerializationError
    from biotite.structure.io.pdbx import CIFFile

    o = Outcome()
    for fid in case.get("narrowed", []):
        o.exclude(fid)
    blocks = case["blocks"]
    for b in blocks:
        for c in b["cats"]:
            for col in c["cols"]:
                for state, v in col["cells"]:
                    if state == 0 and v in (".", "?"):
                        # a present '.'/'?' is a masked value by the data model
                        o.invalid = True
                        return o
    _label_tables(o, case)

    f = _build_cif_file(blocks)
    try:
        text = f.serialize()
    except SerializationError:
        # A continuation line starting with ';' cannot be written as a CIF 1.1 text field at all:
        # once C06-F2 is closed (no narrowing any more) refusing such a value at serialisation is
        # a conforming answer; for every other table the error is a violation.
        if any(state == 0 and in_f2(v) for b in blocks for c in b["cats"] for col in c["cols"] for state, v in col["cells"]):
            o.label("f2_value_refused_at_serialize")
            return o
        raise
    sio = io.StringIO()
    f.write(sio)
    # (not promised by either docstring, hence a label only: write() emits exactly serialize())
    o.label("write_text==serialize" if sio.getvalue() == text else "write_text!=serialize")
    # 1. serialize -> deserialize
    parsed = CIFFile.deserialize(text)
    ok = _compare_cif_file(o, parsed, blocks, "deserialize(serialize())")
    # 2. write -> read on a text stream
    sio.seek(0)
    parsed2 = CIFFile.read(sio)
    _compare_cif_file(o, parsed2, blocks, "read(write())")
    # 3. the parsed table is itself a table of the domain: once more, now from parsed objects
    if ok and o.ok:
        again = CIFFile.deserialize(parsed.serialize())
        _compare_cif_file(o, again, blocks, "second round trip", clause_override="second_roundtrip")
    # 4. the documented direct use of the lower levels: a block / a category with a manually set
    #    name is serialised and parsed on its own
    if o.ok:
        _direct_lower_levels(o, blocks, parsed)
    return o


def _direct_lower_levels(o, blocks, parsed):
    from biotite.structure.io.pdbx import CIFBlock, CIFCategory

    def cl(name):
        return name

    # (one block and its largest category per case: the code below the entry points is the one of
    # the file-level round trip, only the entry differs)
    b = blocks[0]
    blk = _build_cif_file([b])[b["name"]]
    blk.name = b["name"]
    blk2 = CIFBlock.deserialize(blk.serialize())
    if o.check_eq(
        list(blk2.keys()), [c["name"] for c in b["cats"]], "names_and_order", f"CIFBlock.deserialize(block.serialize()): categories of {b['name']!r}"
    ):
        for c in b["cats"]:
            _compare_cif_category(o, blk2[c["name"]], c, f"CIFBlock.deserialize(block.serialize()): {b['name']!r}/{c['name']!r}", cl)
    c = max(b["cats"], key=lambda c: len(c["cols"]) * len(c["cols"][0]["cells"]))
    cat = _build_cif_file([{"name": "x", "cats": [c]}])["x"][c["name"]]
    cat.name = c["name"]
    cat2 = CIFCategory.deserialize(cat.serialize())
    _compare_cif_category(o, cat2, c, f"CIFCategory.deserialize(category.serialize()): {c['name']!r}", cl)
    o.label("direct_block_and_category_roundtrip")
    # CIFFile.block: the sole block; "if the file contains multiple blocks, an exception is raised"
    if len(blocks) == 1:
        o.check_eq(list(parsed.block.keys()), [c["name"] for c in blocks[0]["cats"]], "names_and_order", "CIFFile.block of a one-block file")
        o.label("file.block_single")
    else:
        try:
            got = parsed.block
        except Exception:
            o.label("file.block_multi_raises")
        else:
            o.fail("sole_block", f"CIFFile.block of a file with {len(blocks)} blocks returned {type(got).__name__}")


# ---- (b) enumeration: each awkward token at each position ---------------------
AWKWARD_TOKENS = [
    " ", "  ", "\t", "a b", " a", "a ", "a\tb", "\ta",
    "'", '"', "''", '""', "a'b", 'a"b', "a' b", 'a" b', "'a'", '"a"', "'a", "a'", "' a", 'a "',
    "a'\"b", "' \"", "\"' x", " '\"",
    "_", "_a", "_a.b", "_a' b", '_a" b', "_ a",
    "#", "#a", "a#b", "# a", "#'",
    ";", ";a", "a;b", "; a", ";'\"",
    "$", "$a", "[", "]", "[a]", "]a[", "[a b]",
    "a\nb", "\na", "a\nb\nc", "x\n'y\"", "a\n'b c'", "a b\nc d", "\n\n", "a\n", "a \nb", "a\n b", "a\n#b", "a\n\nb",
    "a\n;b", "a\n ;b", "a\n_b.c", "a\ndata_b", "a\nloop_", "a\nLOOP_", "_a\n_b",
    "data_", "data_x", "DATA_X", "loop_", "LOOP_", "Loop_x", "save_", "save_x", "SAVE_", "global_", "GLOBAL_", "stop_", "Stop_",
    "data", "loop", "xdata_", "a.b", ".a", "a.", "a?", "?.", "..", "??", ".?", "",
]  # fmt: skip
FILLERS = {
    "plain": lambda r, c: f"v{r}{c}",
    "quoted": lambda r, c: f"v {r}'{c}",
    "text_field": lambda r, c: f"v{r}\nw{c}",
    "empty": lambda r, c: "",
}


def enum_token_positions(tier):
    for ti, token in enumerate(AWKWARD_TOKENS):
        tok, hit = narrow(token)
        for fname in FILLERS:
            fill = FILLERS[fname]
            for nrow, ncol in ((3, 3), (1, 3)):
                for r in range(nrow):
                    for c in range(ncol):
                        cols = []
                        for j in range(ncol):
                            cells = [[0, tok if (i, j) == (r, c) else fill(i, j)] for i in range(nrow)]
                            cols.append({"name": f"c{j}", "cells": cells, "explicit_mask": False})
                        yield {
                            "blocks": [
                                {
                                    "name": "blk",
                                    "cats": [
                                        {"name": "first", "cols": [{"name": "k", "cells": [[0, "1"]], "explicit_mask": False}]},
                                        {"name": "cat", "cols": cols},
                                        {"name": "last", "cols": [{"name": "k", "cells": [[0, "2"], [0, "3"]], "explicit_mask": False}]},
                                    ],
                                }
                            ],
                            "narrowed": list(hit),
                            "token": token,
                            "filler": fname,
                            "pos": [r, c],
                        }
    # the two mask symbols at every position (as masked cells, inferred and explicit)
    for state in (1, 2):
        for explicit in (False, True):
            for nrow, ncol in ((3, 3), (1, 3)):
                for r in range(nrow):
                    for c in range(ncol):
                        cols = []
                        for j in range(ncol):
                            cells = [[state, "hidden"] if (i, j) == (r, c) else [0, f"v{i}{j}"] for i in range(nrow)]
                            cols.append({"name": f"c{j}", "cells": cells, "explicit_mask": explicit})
                        yield {
                            "blocks": [{"name": "blk", "cats": [{"name": "cat", "cols": cols}]}],
                            "narrowed": [],
                            "token": MASK_SYMBOL[state],
                            "filler": "plain",
                            "pos": [r, c],
                        }


def run_token_position(case):
    o = run_table_roundtrip(case)
    if not o.invalid:
        o.label("filler=" + case["filler"], "token_at_first_col" if case["pos"][1] == 0 else "token_at_other_col")
    return o


# --------------------------------------------------------------------------
# (c) container histories
# --------------------------------------------------------------------------
BLOCK_POOL = ["b1", "B2", "_b", "x-[1]", "data_"]
CAT_POOL = ["c1", "c2", "_c", "__d", "C[1]", "loop_"]
COL_POOL = ["k1", "k2", "_k", "K-3", "id"]
POOLS = [BLOCK_POOL, CAT_POOL, COL_POOL]
MISSING_KEY = "nope"
HISTORY_VALUES = ["a", "b c", "", ".", "?", "it's", 'say "x"', "x\ny", "_u", "#h", "data_z", ";s", "1", "a'\"b"]


class Cat:
    """Model of a category: fixed row count + ordered columns."""

    def __init__(self, rows, cols):
        self.rows = rows
        self.cols = cols  # dict name -> column payload

    def __eq__(self, other):
        return isinstance(other, Cat) and self.rows == other.rows and self.cols == other.cols


class CIFFlavour:
    name = "cif"

    def __init__(self):
        from biotite.structure.io.pdbx import CIFBlock, CIFCategory, CIFColumn, CIFFile

        self.classes = [CIFFile, CIFBlock, CIFCategory, CIFColumn]

    # payloads: a column is a list of strings, '.'/'?' = masked (canonical form)
    def make_column(self, values):
        return self.classes[3](list(values))

    def make_category(self, cat):
        return self.classes[2]({k: self.make_column(v) for k, v in cat.cols.items()})

    def make_block(self, cats):
        return self.classes[1]({k: self.make_category(c) for k, c in cats.items()})

    def make_file(self, blocks):
        return self.classes[0]({k: self.make_block(b) for k, b in blocks.items()})

    def roundtrip(self, f, how):
        File = self.classes[0]
        if how == 0:
            return File.deserialize(f.serialize())
        sio = io.StringIO()
        f.write(sio)
        sio.seek(0)
        return File.read(sio)

    def column_view(self, column):
        arr = column.as_array(str).tolist()
        mask = [0] * len(column) if column.mask is None else [int(m) for m in column.mask.array.tolist()]
        return arr, mask

    def model_column_view(self, values):
        return list(values), [1 if v == "." else 2 if v == "?" else 0 for v in values]

    def column_payload(self, raw, rows):
        return [v for v in raw["values"][:rows]]


class BCIFFlavour:
    name = "bcif"

    def __init__(self):
        from biotite.structure.io.pdbx import (
            BinaryCIFBlock,
            BinaryCIFCategory,
            BinaryCIFColumn,
            BinaryCIFFile,
        )

        self.classes = [BinaryCIFFile, BinaryCIFBlock, BinaryCIFCategory, BinaryCIFColumn]

    # payloads: {"data": [...], "mask": None | [...]}
    def make_column(self, p):
        import numpy as np

        mask = None if p["mask"] is None else np.array(p["mask"], dtype=np.uint8)
        return self.classes[3](list(p["data"]), mask)

    def make_category(self, cat):
        return self.classes[2]({k: self.make_column(v) for k, v in cat.cols.items()})

    def make_block(self, cats):
        return self.classes[1]({k: self.make_category(c) for k, c in cats.items()})

    def make_file(self, blocks):
        return self.classes[0]({k: self.make_block(b) for k, b in blocks.items()})

    def roundtrip(self, f, how):
        File = self.classes[0]
        if how == 0:
            return File.deserialize(f.serialize())
        bio = io.BytesIO()
        f.write(bio)
        bio.seek(0)
        return File.read(bio)

    # "no mask" and "every row PRESENT" are the same table (as for the text flavour, where the
    # constructor itself drops such a mask): both are shown as a list of zeros
    def column_view(self, column):
        arr = column.data.array.tolist()
        mask = [0] * len(arr) if column.mask is None else [int(m) for m in column.mask.array.tolist()]
        return arr, mask

    def model_column_view(self, p):
        return list(p["data"]), ([0] * len(p["data"]) if p["mask"] is None else list(p["mask"]))

    def column_payload(self, raw, rows):
        if raw["ints"] is not None:
            data = raw["ints"][:rows]
        else:
            data = raw["values"][:rows]
        mask = None if raw["mask"] is None else raw["mask"][:rows]
        return {"data": list(data), "mask": mask}


# ---- strategies for op-lists ------------------------------------------------
def st_history_value():
    def nar(v):
        return narrow(v, always_f2=True)[0]

    return st.one_of(st.sampled_from(HISTORY_VALUES), st.sampled_from(HISTORY_VALUES), st_raw_value().map(nar))


def st_raw_column():
    return st.fixed_dictionaries(
        {
            "values": st.lists(st_history_value(), min_size=3, max_size=3),
            # the next two are only used by the binary flavour
            "ints": st.one_of(st.none(), st.none(), st.lists(st.integers(-5, 300), min_size=3, max_size=3)),
            "mask": st.one_of(st.none(), st.none(), st.lists(st.sampled_from([0, 0, 1, 2]), min_size=3, max_size=3)),
        }
    )


def st_raw_category():
    return st.fixed_dictionaries(
        {
            "rows": st.integers(1, 3),
            "cols": st.lists(st.tuples(st.integers(0, len(COL_POOL) - 1), st_raw_column()), min_size=1, max_size=3),
        }
    )


def st_raw_block(min_cats=0):
    return st.lists(st.tuples(st.integers(0, len(CAT_POOL) - 1), st_raw_category()), min_size=min_cats, max_size=2)


def st_ops(tier):
    idx = st.integers(0, 7)
    path = st.lists(idx, min_size=2, max_size=2)
    level = st.sampled_from([0, 1, 1, 2, 2])
    missing = st.sampled_from([False, False, False, True])
    set_block = st.tuples(st.just("set"), st.just(0), path, idx, st.fixed_dictionaries({"block": st_raw_block()}))
    set_cat = st.tuples(st.just("set"), st.just(1), path, idx, st.fixed_dictionaries({"cat": st_raw_category()}))
    set_col = st.tuples(st.just("set"), st.just(2), path, idx, st.fixed_dictionaries({"col": st_raw_column()}))
    get = st.tuples(st.just("get"), level, path, idx, missing)
    delete = st.tuples(st.just("del"), level, path, idx, missing)
    eq = st.tuples(st.just("eq"), level, path, st.integers(0, 3))
    roundtrip = st.tuples(st.just("roundtrip"), st.sampled_from([0, 1]))
    op = st.one_of(
        set_block, set_cat, set_col, set_col,
        get, get, get,
        delete, delete, delete,
        eq, eq, eq,
        roundtrip, roundtrip,
        st.tuples(st.just("contains"), level, path, idx, missing),
        st.tuples(st.just("iter"), level, path),
        st.tuples(st.just("items"), level, path),
        st.tuples(st.just("get_default"), level, path),
        st.tuples(st.just("alias"), st.sampled_from([0, 1]), path, idx, idx),
        st.tuples(st.just("set_wrong_type"), st.sampled_from([0, 1]), path, idx),
        # the mix-in methods of a mutable mapping (they run through the overridden primitives)
        st.tuples(st.just("pop"), level, path, idx, missing),
        st.tuples(st.sampled_from(["setdefault", "update", "update", "clear"]), level, path, idx, idx),
    )  # fmt: skip
    max_ops = 12 if tier == "quick" else 30
    # Equality of binary containers depends on whether their encodings were resolved by an
    # earlier serialize() (open finding C06-F3): while it is open, the container built for the
    # comparison is serialised once first ("primed"), i.e. the un-primed comparison is excluded.
    prime = st.just(True) if findings.is_open(F3) else st.booleans()
    return st.fixed_dictionaries(
        {
            "init": st.lists(st.tuples(st.integers(0, len(BLOCK_POOL) - 1), st_raw_block(min_cats=1)), min_size=1, max_size=2),
            "ops": st.lists(op, min_size=1, max_size=max_ops),
            "prime_fresh": prime,
            # half of the histories start on a lazily parsed file
            "start_lazy": st.booleans(),
        }
    )


# ---- interpreter ------------------------------------------------------------
def _model_category(fl, raw):
    cols = {}
    for ci, rawcol in raw["cols"]:
        cols[COL_POOL[ci % len(COL_POOL)]] = fl.column_payload(rawcol, raw["rows"])
    return Cat(raw["rows"], cols)


def _model_block(fl, raw):
    return {CAT_POOL[ci % len(CAT_POOL)]: _model_category(fl, rc) for ci, rc in raw}


def _children(node):
    return node.cols if isinstance(node, Cat) else node


def _deep_compare(o, fl, cont, node, level, clause, where):
    """cont: real container of `level` (0 file, 1 block, 2 category); node: its model."""
    kids = _children(node)
    ok = o.check_eq(list(cont.keys()), list(kids.keys()), clause, f"{where}: keys of level {level}")
    o.check_eq(len(cont), len(kids), clause, f"{where}: len at level {level}")
    if not ok:
        return False
    for k, sub in kids.items():
        child = cont[k]
        if not o.check(
            isinstance(child, fl.classes[level + 1]), clause, lambda: f"{where}: [{k!r}] is a {type(child).__name__}"
        ):
            return False
        if level < 2:
            if not _deep_compare(o, fl, child, sub, level + 1, clause, f"{where}/{k}"):
                return False
        else:
            o.check_eq(fl.column_view(child), fl.model_column_view(sub), clause, f"{where}/{k}")
            o.check_eq(len(child), node.rows, clause, f"{where}/{k} len(column)")
    return True


def _unalias(model):
    """Deep copy in which an object stored under two keys becomes two objects."""
    return {
        bk: {ck: Cat(cat.rows, {k: copy.deepcopy(v) for k, v in cat.cols.items()}) for ck, cat in b.items()}
        for bk, b in model.items()
    }


def _has_empty_category(model):
    return any(len(cat.cols) == 0 for b in model.values() for cat in b.values())


def _compare_ignoring_empty(o, fl, f, model, clause, where):
    """Deep comparison of a parsed file with the model in which categories without columns may
    have been kept, skipped or renamed: only the categories with columns are compared."""
    if not o.check_eq(list(f.keys()), list(model.keys()), clause, f"{where}: block names"):
        return
    for bk, b in model.items():
        want = {ck: cat for ck, cat in b.items() if len(cat.cols) > 0}
        got = [ck for ck in f[bk].keys() if ck in want]
        if not o.check_eq(got, list(want), clause, f"{where}: categories with columns of block {bk!r}"):
            return
        for ck, cat in want.items():
            _deep_compare(o, fl, f[bk][ck], cat, 2, clause, f"{where}: {bk}/{ck}")


def _build_from_model(fl, node, level):
    if level == 0:
        return fl.make_file(node)
    if level == 1:
        return fl.make_block(node)
    return fl.make_category(node)


def _mask_only_variant(fl, node, level):
    """A real container equal to the model except that the first row of one column is masked
    while its data array is unchanged (so only the mask tells them apart).  None if impossible."""
    import numpy as np

    fresh = _build_from_model(fl, node, level)
    if level == 2:
        cats = [(fresh, node)]
    elif level == 1:
        cats = [(fresh[k], c) for k, c in node.items()]
    else:
        cats = [(fresh[bk][ck], c) for bk, b in node.items() for ck, c in b.items()]
    for real_cat, cat in cats:
        for k, p in cat.cols.items():
            data, mask = fl.model_column_view(p)
            if fl.name == "cif" and mask[0] != 0:
                continue  # the data itself is '.'/'?'
            mask = [0] * len(data) if mask is None else list(mask)
            mask[0] = 1 if mask[0] == 0 else 0
            real_cat[k] = fl.classes[3](list(data), np.array(mask, dtype=np.uint8))
            return fresh
    return None


def _model_categories(node, level, cont=None):
    """[(model category, real category or None)] below a model node of `level`."""
    if level == 2:
        return [(node, cont)]
    if level == 1:
        return [(c, None if cont is None else cont[k]) for k, c in node.items()]
    return [(c, None if cont is None else cont[bk][ck]) for bk, b in node.items() for ck, c in b.items()]


def _is_all_present(mask):
    return mask is None or all(m == 0 for m in mask)


def _all_present_masks(node, level):
    """(binary flavour) does the model hold a column without any masked row?"""
    return any(_is_all_present(p["mask"]) for cat, _ in _model_categories(node, level) for p in cat.cols.values())


def _with_observed_mask_form(cont, node, level):
    """(binary flavour) deep copy of the model in which every column without masked rows has the
    mask form - ``None`` or an array of zeros - of the corresponding real column."""
    node = copy.deepcopy(node)
    for cat, real_cat in _model_categories(node, level, cont):
        for k, p in cat.cols.items():
            if _is_all_present(p["mask"]) and k in real_cat:
                rmask = real_cat[k].mask
                if rmask is None:
                    p["mask"] = None
                elif all(int(m) == 0 for m in rmask.array.tolist()):
                    p["mask"] = [0] * len(p["data"])
    return node


def _reversed_model(node):
    """The same file model with the insertion order reversed on every level."""
    out = {}
    for bk in reversed(list(node)):
        out[bk] = {}
        for ck in reversed(list(node[bk])):
            cat = node[bk][ck]
            out[bk][ck] = Cat(cat.rows, {k: cat.cols[k] for k in reversed(list(cat.cols))})
    return out


def _touch_all(f):
    """Force the lazy parsing of every level of a file."""
    for block in f.values():
        for category in block.values():
            for column in category.values():
                column.as_array()


def _prime(container, level):
    """Serialise every column of a binary container once so that the parameters of its encodings
    are resolved (column by column: a category without columns cannot be serialised as a whole)."""
    if level == 2:
        for column in container.values():
            column.serialize()
    else:
        for child in container.values():
            _prime(child, level + 1)


def _perturb(fl, node, level, how):
    """A model that differs from `node` (deep copy, one change).  None if impossible."""
    node = copy.deepcopy(node)
    kids = _children(node)
    if how == 0:  # extra key
        pool = POOLS[level]
        free = [k for k in pool if k not in kids]
        if not free:
            return None
        if level == 2:
            proto = next(iter(kids.values()), None)
            if proto is None:
                return None
            kids[free[0]] = copy.deepcopy(proto)
        elif level == 1:
            kids[free[0]] = Cat(1, {"k1": fl.column_payload({"values": ["q"], "ints": None, "mask": None}, 1)})
        else:
            kids[free[0]] = {}
        return node
    if how == 1:  # one key less
        if not kids:
            return None
        if level == 2 and len(kids) == 1:
            return None
        del kids[next(iter(kids))]
        return node
    # change one value somewhere below
    cats = []
    if level == 2:
        cats = [node]
    elif level == 1:
        cats = list(node.values())
    else:
        cats = [c for b in node.values() for c in b.values()]
    for cat in cats:
        for k, p in cat.cols.items():
            if fl.name == "cif":
                cat.cols[k] = ["CHANGED"] + list(p[1:])
            else:
                cat.cols[k] = {"data": ["CHANGED"] + [str(x) for x in p["data"][1:]], "mask": p["mask"]}
            return node
    return None


class _SetLabelOutcome(Outcome):
    """Outcome whose labels are a set per case (a history repeats the same op many times)."""

    __slots__ = ()

    def label(self, *names):
        for n in names:
            if str(n) not in self.labels:
                self.labels.append(str(n))


def _probe_category_constructor(o, fl, model):
    """Building a category from a ``columns`` dict leaves the values of that dict as they are (the
    coercion into column objects happens in the category, not in the caller's argument), and the new
    category is a working mapping.  Whether the category keeps the given dict as its storage later on
    (as blocks and files do with theirs) is not fixed anywhere: recorded as a label only."""
    for b in model.values():
        for cat in b.values():
            if len(cat.cols) < 2:
                continue
            given = {}
            for k, v in cat.cols.items():
                if fl.name == "cif":
                    given[k] = list(v)
                elif v["mask"] is None:
                    given[k] = list(v["data"])
                else:
                    given[k] = fl.make_column(v)

            def snapshot():
                return [(k, type(v).__name__, copy.deepcopy(v) if isinstance(v, list) else id(v)) for k, v in given.items()]

            before = snapshot()
            first = fl.classes[2](given)
            o.check_eq(snapshot(), before, "constructor_argument_unchanged", "the dict given as `columns`, right after the category was built")
            keys = list(cat.cols)
            o.check_eq(list(first.keys()), keys, "category_is_its_own_mapping", "keys of a category built from a dict")
            del first[keys[0]]
            first["verif_added"] = fl.make_column(cat.cols[keys[1]])
            o.check_eq(list(first.keys()), keys[1:] + ["verif_added"], "category_is_its_own_mapping", "keys after delete + set")
            o.label("constructor_dict_probe", "constructor_dict_copied" if snapshot() == before else "constructor_dict_kept_as_storage")
            return


def run_history(case, fl):
    o = _SetLabelOutcome()
    model = {}
    for bi, rawblock in case["init"]:
        model[BLOCK_POOL[bi % len(BLOCK_POOL)]] = _model_block(fl, rawblock)
    real = fl.make_file(model)
    _probe_category_constructor(o, fl, model)
    lazy = False  # True after a round trip: children of `real` are (partly) unparsed
    mutated_after_lazy = 0
    n_roundtrips = 0
    sentinel = object()

    def resolve(level, path):
        """Walk to the container of `level`; returns (real container, model node) or None."""
        cont, node = real, model
        for depth in range(level):
            kids = _children(node)
            if not kids:
                return None
            key = list(kids)[path[depth] % len(kids)]
            cont = cont[key]
            node = kids[key]
        return cont, node

    def pick_existing(node, k):
        kids = _children(node)
        if not kids:
            return None
        return list(kids)[k % len(kids)]

    ops = list(case["ops"])
    if case.get("start_lazy"):
        ops.insert(0, ["roundtrip", 0])
    for step, op in enumerate(ops):
        name = op[0]
        where = f"step {step} {name}"
        if name == "roundtrip":
            if _has_empty_category(model):
                # A category without columns is no table of the property (>= 1 column): whether such a
                # file is refused (as now) or written somehow is not judged.  If it is written, the
                # tables with columns must come back unchanged; `real` itself is kept either way.
                try:
                    written = fl.roundtrip(real, op[1])
                except Exception:
                    o.label("roundtrip_refused_empty_category")
                else:
                    o.label("roundtrip_accepted_empty_category")
                    _compare_ignoring_empty(o, fl, written, model, "roundtrip_keeps_nonempty_tables", where)
            else:
                real = fl.roundtrip(real, op[1])
                model = _unalias(model)  # aliases are separate objects after a round trip
                lazy = True
                n_roundtrips += 1
                o.label("op:roundtrip")
        else:
            level, path = op[1], op[2]
            target = resolve(level, path)
            if target is None:
                o.label("op_skipped_no_container")
                continue
            cont, node = target
            kids = _children(node)
            o.label(f"op:{name}", f"level={level}", "after_lazy" if lazy else "before_lazy")
            if name == "set":
                key = POOLS[level][op[3] % len(POOLS[level])]
                raw = op[4]
                if level == 0:
                    sub = _model_block(fl, raw["block"])
                    cont[key] = fl.make_block(sub)
                elif level == 1:
                    sub = _model_category(fl, raw["cat"])
                    cont[key] = fl.make_category(sub)
                else:
                    sub = fl.column_payload(raw["col"], node.rows)
                    # alternate between the coercing and the formal way of adding a column
                    if op[3] % 2 == 0 and (fl.name == "cif" or sub["mask"] is None):
                        cont[key] = list(sub) if fl.name == "cif" else list(sub["data"])
                    else:
                        cont[key] = fl.make_column(sub)
                o.label("set_overwrites" if key in kids else "set_adds")
                kids[key] = sub
                if lazy:
                    mutated_after_lazy += 1
            elif name == "get":
                if op[4]:
                    o.expect_raises(KeyError, lambda: cont[MISSING_KEY], "missing_key_raises_keyerror", where)
                else:
                    key = pick_existing(node, op[3])
                    if key is None:
                        o.expect_raises(KeyError, lambda: cont[MISSING_KEY], "missing_key_raises_keyerror", where)
                    else:
                        child = cont[key]
                        o.check(isinstance(child, fl.classes[level + 1]), "get_returns_stored", lambda: f"{where}: {type(child).__name__}")
                        if level < 2:
                            # "The deserialized block/category objects are cached for subsequent accesses"
                            o.check(cont[key] is child, "get_returns_stored", f"{where}: second access gives another object")
                            o.check_eq(list(child.keys()), list(_children(kids[key]).keys()), "get_returns_stored", where)
                        else:
                            # (nothing says that a category hands out the same column *object* twice)
                            o.check_eq(fl.column_view(child), fl.model_column_view(kids[key]), "get_returns_stored", where)
                            o.check_eq(fl.column_view(cont[key]), fl.model_column_view(kids[key]), "get_returns_stored", f"{where}: second access")
            elif name == "del":
                key = MISSING_KEY if op[4] else pick_existing(node, op[3])
                if key is None:
                    key = MISSING_KEY

                def delete():
                    del cont[key]

                if level == 2 and len(kids) == 1:
                    # The last column of a category: the text flavour refuses with ValueError ("At least
                    # one column must remain", checked before the key), the binary one deletes it.
                    # Neither is documented, so both answers conform for both flavours; a refusal
                    # must leave the category as it was.
                    try:
                        delete()
                    except ValueError:
                        o.label("del_last_column_refused")
                        o.check_eq(list(cont.keys()), list(kids), "refused_delete_keeps_state", f"{where}: keys after the refused deletion")
                        o.check_eq(len(cont), len(kids), "refused_delete_keeps_state", f"{where}: len after the refused deletion")
                    except KeyError:
                        o.check(key == MISSING_KEY, "missing_key_raises_keyerror", f"{where}: KeyError for the existing key {key!r}")
                        o.check_eq(list(cont.keys()), list(kids), "refused_delete_keeps_state", f"{where}: keys after KeyError")
                    else:
                        if o.check(key != MISSING_KEY, "missing_key_raises_keyerror", f"{where}: deleting a missing key raised nothing"):
                            del kids[key]
                            o.label("del_done", "del_last_column_done")
                            if lazy:
                                mutated_after_lazy += 1
                elif key == MISSING_KEY:
                    o.expect_raises(KeyError, delete, "missing_key_raises_keyerror", where)
                else:
                    delete()
                    del kids[key]
                    o.label("del_done")
                    if lazy:
                        mutated_after_lazy += 1
            elif name == "contains":
                key = MISSING_KEY if op[4] else pick_existing(node, op[3])
                if key is None:
                    key = MISSING_KEY
                o.check_eq(key in cont, key in kids, "containment", f"{where} {key!r}")
                for k in POOLS[level]:
                    o.check_eq(k in cont, k in kids, "containment", f"{where} {k!r}")
            elif name == "iter":
                o.check_eq(list(iter(cont)), list(kids), "iteration_order", where)
                o.check_eq(list(cont.keys()), list(kids), "iteration_order", f"{where} keys()")
                o.check_eq(len(cont), len(kids), "length", where)
            elif name == "items":
                items = list(cont.items())
                o.check_eq([k for k, _ in items], list(kids), "iteration_order", f"{where} items()")
                values = list(cont.values())
                o.check_eq(len(values), len(kids), "iteration_order", f"{where} values()")
                for (k, child), v in zip(items, values):
                    if level < 2:
                        o.check(child is v and cont[k] is child, "get_returns_stored", f"{where}: items()/values()/[] disagree for {k!r}")
                    elif o.check(isinstance(child, fl.classes[3]) and isinstance(v, fl.classes[3]), "get_returns_stored", lambda: f"{where}: {type(child).__name__}"):
                        want = fl.model_column_view(kids[k])
                        o.check(
                            fl.column_view(child) == want and fl.column_view(v) == want and fl.column_view(cont[k]) == want,
                            "get_returns_stored",
                            f"{where}: items()/values()/[] disagree for {k!r}",
                        )
                    o.check(isinstance(child, fl.classes[level + 1]), "get_returns_stored", lambda: f"{where}: {type(child).__name__}")
            elif name == "eq":
                fresh = _build_from_model(fl, node, level)
                if fl.name == "bcif" and case.get("prime_fresh", True):
                    # both sides with resolved encodings (the real one usually is already, by the snapshots)
                    _prime(fresh, level)
                    _prime(cont, level)
                    o.exclude(F3)
                if fl.name == "bcif" and not (cont == fresh) and _all_present_masks(node, level):
                    # "no mask" and an explicit all-PRESENT mask are the same table, but not
                    # necessarily == as objects: a writer/reader may turn one form into the other.
                    # Then the comparison is made with the form that the real columns show.
                    fresh = _build_from_model(fl, _with_observed_mask_form(cont, node, level), level)
                    if case.get("prime_fresh", True):
                        _prime(fresh, level)
                    o.label("eq_with_observed_mask_form")
                o.check(cont == fresh, "equality", f"{where}: container != freshly built equal container")
                o.check(not (cont != fresh), "equality", f"{where}: != is True for equal containers")
                how = op[3] % 4
                if how == 3:
                    diff = _mask_only_variant(fl, node, level)
                else:
                    other = _perturb(fl, node, level, how)
                    diff = None if other is None else _build_from_model(fl, other, level)
                if diff is not None:
                    if fl.name == "bcif" and case.get("prime_fresh", True):
                        _prime(diff, level)
                    o.check(not (cont == diff), "equality", f"{where}: == is True for a different container (perturbation {how})")
                    o.check(cont != diff, "equality", f"{where}: != is False for a different container")
                    o.label("eq_with_different", f"eq_perturbation={how}")
                o.check(not (cont == 5), "equality", f"{where}: == 5")
                if level == 0 and len(kids) > 0 and not _has_empty_category(node):
                    # mappings compare regardless of insertion order, and the answer must not
                    # depend on whether the children have been parsed yet (lazy parsing)
                    same = fl.roundtrip(_build_from_model(fl, node, 0), op[3] % 2)
                    perm = fl.roundtrip(_build_from_model(fl, _reversed_model(node), 0), (op[3] // 2) % 2)
                    o.check(same == perm, "equality_lazy_order_independent", f"{where}: lazily parsed files with permuted insertion order compare unequal")
                    _touch_all(perm)
                    o.check(same == perm, "equality_lazy_order_independent", f"{where}: lazy vs parsed file with permuted insertion order compare unequal")
                    _touch_all(same)
                    o.check(same == perm and not (same != perm), "equality_lazy_order_independent", f"{where}: parsed files with permuted insertion order compare unequal")
                    o.label("eq_permuted_lazy")
            elif name == "pop":
                key = MISSING_KEY if op[4] else pick_existing(node, op[3])
                if key is None:
                    key = MISSING_KEY
                if key == MISSING_KEY:
                    o.check(cont.pop(MISSING_KEY, sentinel) is sentinel, "missing_key_raises_keyerror", f"{where}: pop() with default")
                    o.expect_raises(KeyError, lambda: cont.pop(MISSING_KEY), "missing_key_raises_keyerror", where)
                else:
                    try:
                        child = cont.pop(key)
                    except ValueError:
                        # the last column of a category (see "del")
                        if not (level == 2 and len(kids) == 1):
                            raise
                        o.label("del_last_column_refused")
                        o.check_eq(list(cont.keys()), list(kids), "refused_delete_keeps_state", f"{where}: keys after the refused pop")
                    else:
                        if o.check(isinstance(child, fl.classes[level + 1]), "get_returns_stored", lambda: f"{where}: {type(child).__name__}"):
                            if level < 2:
                                o.check_eq(list(child.keys()), list(_children(kids[key]).keys()), "get_returns_stored", where)
                            else:
                                o.check_eq(fl.column_view(child), fl.model_column_view(kids[key]), "get_returns_stored", where)
                        del kids[key]
                        o.label("del_done")
                        if lazy:
                            mutated_after_lazy += 1
            elif name in ("setdefault", "update"):
                src = pick_existing(node, op[3])
                if src is None:
                    o.label("op_skipped_no_container")
                    continue
                key = POOLS[level][op[4] % len(POOLS[level])]
                # the value: an independent, freshly built copy of the sibling `src`
                if level == 0:
                    sub = _unalias({"b": kids[src]})["b"]
                    value = fl.make_block(sub)
                elif level == 1:
                    sub = _unalias({"b": {"c": kids[src]}})["b"]["c"]
                    value = fl.make_category(sub)
                else:
                    sub = copy.deepcopy(kids[src])
                    value = fl.make_column(sub)
                if name == "update":
                    cont.update({key: value})
                    kids[key] = sub
                elif key in kids:
                    got = cont.setdefault(key, value)
                    o.check(got is not value, "get_returns_stored", f"{where}: setdefault() on an existing key returned the default")
                    if level < 2:
                        o.check(got is cont[key], "get_returns_stored", f"{where}: setdefault() on an existing key did not return the stored child")
                    o.label("setdefault_existing")
                else:
                    cont.setdefault(key, value)
                    kids[key] = sub
                    o.label("setdefault_adds")
                if lazy:
                    mutated_after_lazy += 1
            elif name == "clear":
                if level == 2:
                    # (a category: meets the undocumented last-column rule half way - not driven)
                    o.label("op_skipped_clear_on_category")
                    continue
                cont.clear()
                kids.clear()
                if lazy:
                    mutated_after_lazy += 1
            elif name == "get_default":
                o.check(cont.get(MISSING_KEY, sentinel) is sentinel, "missing_key_raises_keyerror", f"{where}: get() with default")
            elif name == "alias":
                src = pick_existing(node, op[3])
                if src is None:
                    o.label("op_skipped_no_container")
                    continue
                key = POOLS[level][op[4] % len(POOLS[level])]
                child_model = kids[src]
                serial_ok = fl.name == "bcif" and op[4] % 3 == 0 and not (
                    _has_empty_category({"b": child_model}) if level == 0 else len(child_model.cols) == 0
                )
                if serial_ok:
                    # the *serialised form* of one child stored under two keys (accepted by
                    # __setitem__): both keys own their entry, before and after serialisation
                    o.label("op:alias_serialized")
                    key2 = POOLS[level][(op[4] + 1) % len(POOLS[level])]
                    ser = cont[src].serialize()
                    try:
                        cont[key] = ser
                        cont[key2] = ser
                    except (TypeError, ValueError):
                        # assigning the serialised form is accepted by __setitem__, but no docstring
                        # offers it ("The values are ... objects"): a refusal conforms, too
                        o.label("serialized_assignment_rejected")
                        o.check_eq(list(cont.keys()), list(kids), "refused_set_keeps_state", f"{where}: keys after the refused assignment")
                        serial_ok = False
                if serial_ok:
                    # (serialisation also separates objects that were stored under two keys inside
                    # the child: the copies must not keep that aliasing)
                    def fresh_copy():
                        if level == 0:
                            return _unalias({"b": child_model})["b"]
                        return Cat(child_model.rows, {k: copy.deepcopy(v) for k, v in child_model.cols.items()})

                    kids[key] = fresh_copy()
                    kids[key2] = fresh_copy()
                else:
                    child = cont[src]
                    cont[key] = child
                    if cont[key] is child:
                        # stored by reference: a later set/delete through one key shows under the other
                        kids[key] = kids[src]  # same object in the model, too
                        o.label("alias_by_reference")
                    else:
                        # copy on insertion (nothing documents either way, nor how deep such a copy
                        # would be): the copy must show the content of its source; then it is replaced
                        # by an entry that shares nothing with `src`, which the model can describe
                        sub = _unalias({"b": kids[src]})["b"] if level == 0 else _unalias({"b": {"c": kids[src]}})["b"]["c"]
                        _deep_compare(o, fl, cont[key], sub, level + 1, "alias_copy_equals_source", where)
                        cont[key] = fl.make_block(sub) if level == 0 else fl.make_category(sub)
                        kids[key] = sub
                        o.label("alias_copied_on_insert")
                if lazy:
                    mutated_after_lazy += 1
            elif name == "set_wrong_type":
                key = POOLS[level][op[3] % len(POOLS[level])]
                wrong = fl.classes[2]() if level == 0 else fl.classes[1]()

                # A child of the wrong level: refused with TypeError today.  The refusal is promised
                # nowhere, so any error - or none - is accepted; what is checked is that the container
                # is as before after a refusal, or still a working mapping after an acceptance.
                try:
                    cont[key] = wrong
                except Exception as e:
                    o.label("wrong_type_rejected:" + ("TypeError" if isinstance(e, TypeError) else "other"))
                    o.check_eq(list(cont.keys()), list(kids), "refused_set_keeps_state", f"{where}: keys after the refused assignment")
                else:
                    o.label("wrong_type_accepted")
                    o.check(key in cont, "containment", f"{where}: key of an accepted assignment is missing")
                    # put the container back into a state the model can describe
                    if key in kids:
                        kids[key] = _unalias({"b": kids[key]})["b"] if level == 0 else _unalias({"b": {"c": kids[key]}})["b"]["c"]
                        cont[key] = fl.make_block(kids[key]) if level == 0 else fl.make_category(kids[key])
                    else:
                        del cont[key]
            else:
                raise AssertionError(name)

        if not o.ok:
            return o
        # ---- invariant after every step
        o.check_eq(list(real.keys()), list(model.keys()), "iteration_order", f"after {where}: block names")
        o.check_eq(len(real), len(model), "length", f"after {where}")
        if _has_empty_category(model):
            o.label("state_has_empty_category")
        else:
            snap = fl.classes[0].deserialize(real.serialize())
            _deep_compare(o, fl, snap, model, 0, "snapshot_equals_model", f"after {where}")
        if not o.ok:
            return o

    # final: the real object itself, fully accessed
    _deep_compare(o, fl, real, model, 0, "final_state_equals_model", "final")
    o.label(f"roundtrips={min(n_roundtrips, 3)}")
    o.mark_nontrivial(mutated_after_lazy > 0)
    if mutated_after_lazy:
        o.label("mutated_after_lazy")
    return o


_FLAVOURS = {}


def _flavour(name):
    if name not in _FLAVOURS:
        _FLAVOURS[name] = CIFFlavour() if name == "cif" else BCIFFlavour()
    return _FLAVOURS[name]


def run_cif_history(case):
    return run_history(case, _flavour("cif"))


def run_bcif_history(case):
    return run_history(case, _flavour("bcif"))


# --------------------------------------------------------------------------
def st_long_tables(tier):
    """Looped categories with many rows (60..140; thorough up to 400): mostly plain fillers, a few awkward
    cells at drawn rows, one of them usually the longest value of its column."""
    max_rows = 140 if tier == "quick" else 400

    @st.composite
    def gen(draw):
        nrow = draw(st.one_of(st.integers(60, 70), st.integers(60, max_rows), st.sampled_from([126, 127, 128, 129, 130, 133, 140])))
        ncol = draw(st.integers(1, 3))
        # a third of the tables hold no quote character at all (the tokeniser - and any fast path put
        # in front of it - branches on their presence in a line / in the table)
        no_quote = draw(st.sampled_from([False, False, True]))
        cols = []
        used = set()
        for j in range(ncol):
            filler = draw(st.sampled_from(["x", "ab", "1.5", "N", "CA", "0", "HOH", "a-b"]))
            cells = [[0, filler if i % 3 else filler + str(i % 7)] for i in range(nrow)]
            for _ in range(draw(st.integers(1, 5))):
                row = draw(st.integers(0, nrow - 1))
                cell = draw(st_cell(9))
                if draw(st.booleans()) and cell[0] == 0:
                    # make it the longest value of the column
                    cell[1] = cell[1] + draw(st.sampled_from(["zzzzzzzz", " zzzzzzz", "'zzzzzz", "_zzzzzzz"]))
                    cell[1], hit = narrow(cell[1])
                    cell[2] = sorted(set(cell[2]) | set(hit))
                if no_quote:
                    cell[1] = cell[1].replace("'", "q").replace('"', "Q")
                cells[row] = cell
            i = draw(st.integers(0, len(NAME_POOL) - 1))
            while NAME_POOL[i].lower() in used:
                i = (i + 1) % len(NAME_POOL)
            used.add(NAME_POOL[i].lower())
            cols.append({"name": NAME_POOL[i], "cells": cells, "explicit_mask": draw(st.booleans())})
        cat = {"name": draw(st.sampled_from(["atom_site", "a", "B[1][2]"])), "cols": cols}
        return _finish_table_case({"blocks": [{"name": "blk", "cats": [cat]}]})

    return gen()


SUBS = [
    Sub(
        "table_roundtrip",
        st_tables,
        run_table_roundtrip,
        quick=6400,
        thorough=300000,
        rule="looped category (>= 2 rows) holding >= 1 present value that must be quoted or written as text field",
        clauses="names and order of blocks/categories/columns, as_array(str), masks, row_count; via serialize/deserialize and write/read",
    ),
    Sub(
        "long_tables",
        st_long_tables,
        run_table_roundtrip,
        quick=320,
        thorough=8000,
        rule="looped category with 60..140 rows (thorough: up to 400; a third of the cases 126..140) and awkward values at a few rows",
        clauses="string table returned unchanged for long columns (row count dependent code paths)",
    ),
    Sub(
        "cif_containers",
        st_ops,
        run_cif_history,
        quick=2000,
        thorough=70000,
        rule=">= 1 successful set/delete/alias on a container reached after a lazy round trip",
        clauses="CIFFile/CIFBlock/CIFCategory mapping protocol vs dict model, before and after lazy parsing",
    ),
    Sub(
        "bcif_containers",
        st_ops,
        run_bcif_history,
        quick=2000,
        thorough=70000,
        rule=">= 1 successful set/delete/alias on a container reached after a lazy round trip",
        clauses="BinaryCIFFile/BinaryCIFBlock/BinaryCIFCategory mapping protocol vs dict model, before and after lazy parsing",
    ),
]

ENUMS = [
    Enum(
        "token_positions",
        enum_token_positions,
        run_token_position,
        rule="every case: one awkward token in a 3x3 looped or 1x3 single-row category between two other categories",
        clauses="same as table_roundtrip",
        exhaustive=True,
    )
]
