"""
C02  A bond list is a set of undirected typed bonds with safe indices.

Oracle: models/bond_model.py - an atom count plus ``dict[(lo, hi)] -> type`` with
the documented precedence rules (first type wins at construction, the new type
on add_bond, the argument on merge).  A history is an op-list that is
interpreted step by step on a real BondList and on the model; after every step
*every* view of the real list is compared with the model.

Sub-checks
----------
history    construction + op-list, all views compared after every step.
oor_index  one out-of-range integer fed to one index-taking entry point, executed
           in a sacrificial subprocess (vlib.sandbox): the only accepted outcome
           is IndexError with the list unchanged (membership ``(i, j) in bl``:
           False or any exception, list unchanged - ``in`` has no docstring).

Deliberately NOT judged (outside the statement / quantifier, see notes/audit/C02_applied.md)
--------------------------------------------------------------------------------------------
* bonds of an atom with itself (i, i): never generated.
* offset_indices(0): the docstring says "must be positive".
* whether ``==`` looks at the atom count (no docstring): both answers accepted, labelled.
* remove_aromaticity() on plain AROMATIC (no formal order): ANY or unchanged accepted, labelled.
* masks of the wrong length.

Open findings (compiled code, cannot be rebuilt here)
-----------------------------------------------------
C02-F1  scalar atom index < -n in get_bonds/add_bond/remove_bond/remove_bonds_to/
        bl[int]: segfault or silent return.  The class "scalar index < -n" is
        mapped to the mirrored index >= n by construction while the finding is
        open (counted with Outcome.exclude).
C02-F2  a boolean mask that is not C-contiguous (mask[::2], mask[::-1]) raises
        ValueError from np.frombuffer.  Non-contiguous mask layouts are mapped
        to the contiguous layout while the finding is open (counted).
"""

import numpy as np
from hypothesis import strategies as st

from models.bond_model import BondModel, key_of
from vlib import Outcome, Sub, findings
from vlib.sandbox import run_sandboxed

PROPERTY = "C02"
RULE = (
    "history: construction array (any integer dtype/layout, duplicates, reversed pairs, in-range "
    "negative indices, all bond types) followed by an op-list on a real BondList and the dict model; "
    "non-trivial = >= 1 duplicate/reversed construction pair AND >= 1 removal that removed a bond AND "
    ">= 1 index operation with an unsorted index array/list or a stepped slice selecting >= 2 atoms. "
    "oor_index: one integer outside [-n, n) (next to the bounds, next to +-2^31, for array/list/tuple "
    "arguments also next to +-2^32 and +-2^63) given to one index-taking entry point of a list that comes "
    "from the constructor + in-place edits or from merge/+/concatenate/indexing; non-trivial = the "
    "list holds >= 1 bond when the index is fed.  Never generated: bonds of an atom with itself, "
    "offset_indices(0), masks of the wrong length"
)

INT_DTYPES = ["int8", "int16", "int32", "int64", "uint8", "uint16", "uint32", "uint64"]
SIGNED = {"int8", "int16", "int32", "int64"}
ARRAY_LAYOUTS = ["C", "F", "strided"]
MASK_LAYOUTS = ["C", "strided", "reversed", "list"]  # "list" = plain Python list of bool
NONCONTIGUOUS_MASKS = ("strided", "reversed")

F1 = "C02-F1"
F2 = "C02-F2"
CLAUSE_OOR = "index_out_of_range_rejected"
CLAUSE_MASK_LAYOUT = "index_mask_any_layout"

SCALAR_METHODS = [
    "get_bonds",
    "getitem_int",
    "add_bond_1",
    "add_bond_2",
    "remove_bond_1",
    "remove_bond_2",
    "remove_bonds_to",
]
ARRAY_METHODS = ["getitem_array", "getitem_list", "ctor_2", "ctor_3"]
CONTAINS_METHODS = ["contains_1", "contains_2"]
LO_KINDS = ["lo1", "lo2", "lok", "min32", "min32+1", "min32+k"]
HI_KINDS = ["hi0", "hi1", "hi5", "hik", "max32", "max32-1", "max32-k"]
# values that do not fit 32 bits: only for entry points that take arrays / lists / tuples (a scalar
# argument of the compiled methods is typed int32 and fails in the argument conversion).  They
# become a valid index if the value is cast to 32 bits before the range test.
WIDE_LO_KINDS = ["wrap32neg", "min63"]
WIDE_HI_KINDS = ["wrap32", "wrap32m", "max63"]
MIRROR = {
    "lo1": "hi0",
    "lo2": "hi1",
    "lok": "hik",
    "min32": "max32",
    "min32+1": "max32-1",
    "min32+k": "max32-k",
}


# --------------------------------------------------------------------------
# building biotite objects from plain data
# --------------------------------------------------------------------------
F3 = "C02-F3"
_NO_FIT = [False]  # set by the reproducer of C02-F3; (re)set at the start of every run_* call


def _fit_dtype(dtype, n, o=None):
    """8 bit dtypes cannot hold the indices of long lists (histories grow by
    concatenation): widen deterministically.

    Open finding C02-F3: an index array whose dtype can hold every index but not the atom count
    itself (int8 and 100 < n, e.g. n = 128) makes BondList.__getitem__ raise OverflowError; such
    arrays are given in the next wider dtype while the finding is open (counted)."""
    if _NO_FIT[0]:
        return dtype
    if n > 100 and dtype in ("int8", "uint8"):
        if o is not None and findings.is_open(F3):
            o.exclude(F3)
        return "int16" if dtype == "int8" else "uint16"
    return dtype


def _layout(arr, layout):
    """Same values, different memory layout."""
    if layout == "C":
        return np.ascontiguousarray(arr)
    if layout == "F":
        return np.asfortranarray(arr)
    if layout == "strided":
        junk = True if arr.dtype == bool else 77
        big = np.full((2 * arr.shape[0],) + arr.shape[1:], junk, dtype=arr.dtype)
        big[::2] = arr
        return big[::2]
    if layout == "reversed":
        return np.ascontiguousarray(arr[::-1])[::-1]
    raise ValueError(layout)


def _resolve_rows(spec, n, cur):
    """Raw rows of a list spec -> concrete [i, j, type] rows for atom count n.

    ``[ra, rb, t, nega, negb, _]``: indices reduced modulo n (a pair of equal
    indices is moved to the next atom: a bond of an atom with itself is outside
    the property's quantifier; the 6th field is a leftover of the case format
    and ignored), written as negative (in range) indices when flagged and the
    dtype is signed.
    ``["cur", k, swap, t]``: the k-th bond of the current model (used to build
    argument lists that overlap with the list under test)."""
    signed = spec["dtype"] in SIGNED
    out = []
    for row in spec["rows"]:
        if row[0] == "cur":
            _, k, swap, t = row
            if cur is None or not cur.b:
                continue
            keys = cur.keys()
            a, b = keys[k % len(keys)]
            if b >= n:
                continue
            if swap:
                a, b = b, a
            out.append([a, b, t])
            continue
        ra, rb, t, nega, negb = row[:5]
        if n == 0:
            continue
        a, b = ra % n, rb % n
        if a == b:
            if n < 2:
                continue
            b = (a + 1) % n
        if signed and nega:
            a -= n
        if signed and negb:
            b -= n
        out.append([a, b, t])
    return out


def _build(spec, n, cur=None):
    from biotite.structure import BondList

    rows = _resolve_rows(spec, n, cur)
    cols = spec["cols"]
    rows = [r[:cols] for r in rows]
    model = BondModel(n, rows)
    if not rows and spec["none"]:
        real = BondList(n)
    else:
        arr = np.array(rows, dtype=_fit_dtype(spec["dtype"], n)).reshape(-1, cols)
        real = BondList(n, _layout(arr, spec["layout"]))
    return real, model


def _rebuild_from_model(model, n=None, rows=None):
    from biotite.structure import BondList

    rows = model.rows() if rows is None else rows
    return BondList(
        model.n if n is None else n, np.array(rows, dtype=np.int64).reshape(-1, 3)
    )


# --------------------------------------------------------------------------
# the oracle: every view against the model
# --------------------------------------------------------------------------
def _dtype_for(value, dtype):
    info = np.iinfo(dtype)
    if info.min <= value <= info.max:
        return dtype
    return "int64"


def _scalar(value, dtype):
    """The atom index as given by the caller: a Python int (dtype None) or a NumPy integer scalar
    (what np.where / np.nonzero / iterating over an index array hand out); a dtype that cannot hold
    the value is widened to int64."""
    if dtype is None:
        return value
    return np.dtype(_dtype_for(value, dtype)).type(value)


def _view_violations(bl, m, ctx="", notes=None):
    """list of (clause, message); empty = all views agree with the model.
    ``notes``: optional set that receives labels for behaviour the property leaves open."""
    from biotite.structure import BondType

    v = []

    def bad(clause, msg):
        v.append((clause, f"{ctx}: {msg}"))

    n = m.n
    want = m.triples()
    c = bl.get_atom_count()
    if c != n:
        bad("atom_count", f"get_atom_count() = {c!r}, model {n}")
        return v
    bc = bl.get_bond_count()
    if bc != len(want):
        bad("bond_count", f"get_bond_count() = {bc!r}, model {len(want)} {sorted(want)}")

    # as_set
    s = bl.as_set()
    if not isinstance(s, set) or s != want:
        bad("view_as_set", f"as_set() = {sorted(s)!r}, model {sorted(want)}")

    # as_array: canonical form
    arr = bl.as_array()
    if not isinstance(arr, np.ndarray) or arr.ndim != 2 or arr.shape[1] != 3 or arr.dtype != np.uint32:
        bad("view_as_array", f"as_array() has shape {getattr(arr, 'shape', None)} dtype {getattr(arr, 'dtype', None)}")
    else:
        rows = [tuple(r) for r in arr.tolist()]
        pairs = [r[:2] for r in rows]
        if len(set(pairs)) != len(pairs):
            bad("view_as_array", f"duplicate pair in as_array(): {rows}")
        if any(r[0] > r[1] for r in rows):
            bad("view_as_array", f"row with first index > second: {rows}")
        if any(r[1] >= n for r in rows):
            bad("view_as_array", f"index >= atom count {n}: {rows}")
        if set(rows) != want:
            bad("view_as_array", f"as_array() = {sorted(rows)}, model {sorted(want)}")
        # "Obtain a copy": writing into the returned array must not reach the list
        if arr.size:
            arr[:] = 0
            if bl.as_set() != s:
                bad("view_as_array", "as_array() is not a copy: writing into it changed the list")

    # per-atom table, positive and (in range) negative index, and bl[int]; the index is a Python
    # int or (every other atom) a NumPy integer scalar of a dtype that rotates with the atom
    neigh = [sorted(m.neighbours(i)) for i in range(n)]
    for i in range(n):
        neg = _scalar(i - n, ["int64", "int32", "int16", "int8"][(i // 2) % 4]) if i % 2 else i - n
        item = i if i % 2 else _scalar(i, INT_DTYPES[(i // 2) % 8])
        for idx, how in ((i, "get_bonds"), (neg, "get_bonds"), (item, "getitem")):
            nb, ty = bl.get_bonds(idx) if how == "get_bonds" else bl[idx]
            got = sorted(zip(nb.tolist(), ty.tolist()))
            if got != neigh[i]:
                bad("view_get_bonds", f"{how}({idx!r}) = {got}, model {neigh[i]}")
                break

    # all-atom table, -1 padding stripped
    ab, at = bl.get_all_bonds()
    if ab.ndim != 2 or ab.shape != at.shape or ab.shape[0] != n:
        bad("view_get_all_bonds", f"shapes {ab.shape} / {at.shape} for atom count {n}")
    else:
        for i in range(n):
            got = []
            for b, t in zip(ab[i].tolist(), at[i].tolist()):
                if b == -1 and t == -1:
                    continue
                if b == -1 or t == -1:
                    bad("view_get_all_bonds", f"row {i}: padding not aligned {ab[i].tolist()} / {at[i].tolist()}")
                    break
                got.append((b, t))
            if sorted(got) != neigh[i]:
                bad("view_get_all_bonds", f"row {i}: {sorted(got)}, model {neigh[i]}")
                break

    # matrices
    adj = bl.adjacency_matrix()
    want_adj = np.array(m.adjacency(), dtype=bool).reshape(n, n)
    if adj.shape != (n, n) or adj.dtype != bool or not np.array_equal(adj, want_adj):
        bad("view_adjacency_matrix", f"adjacency_matrix() = {adj.tolist()}, model {want_adj.tolist()}")
    btm = bl.bond_type_matrix()
    want_btm = np.array(m.type_matrix(), dtype=np.int64).reshape(n, n)
    if btm.shape != (n, n) or not np.array_equal(btm, want_btm):
        bad("view_bond_type_matrix", f"bond_type_matrix() = {btm.tolist()}, model {want_btm.tolist()}")

    # graph
    g = bl.as_graph()
    edges = {}
    for a, b, data in g.edges(data=True):
        k = key_of(int(a), int(b))
        if k in edges:
            bad("view_as_graph", f"edge {k} twice")
        edges[k] = data.get("bond_type")
    if set(edges) != set(m.b):
        bad("view_as_graph", f"edges {sorted(edges)}, model {sorted(m.b)}")
    else:
        for k, bt in edges.items():
            if not isinstance(bt, BondType) or int(bt) != m.b[k]:
                bad("view_as_graph", f"edge {k} bond_type {bt!r}, model {m.b[k]}")
                break
    bonded = {a for k in m.b for a in k}
    nodes = {int(x) for x in g.nodes}
    if not (bonded <= nodes and all(0 <= x < n for x in nodes)):
        bad("view_as_graph", f"nodes {sorted(nodes)}, bonded atoms {sorted(bonded)}, atom count {n}")

    # membership (non-negative indices, both orders)
    if n <= 14:
        pairs = [(i, j) for i in range(n) for j in range(n)]
    else:
        pairs = set()
        for a, b in m.b:
            pairs.update([(a, b), (b, a), (a, (b + 1) % n), ((a + 1) % n, b)])
        pairs.update((i, (i * 7 + 3) % n) for i in range(n))
        pairs = sorted(pairs)
    for i, j in pairs:
        got = (i, j) in bl
        if bool(got) != m.contains(i, j):
            bad("view_membership", f"({i}, {j}) in bond_list = {got!r}, model {m.contains(i, j)}")
            break

    # equality with a list rebuilt from the model, inequality with perturbed models
    twin = _rebuild_from_model(m)
    if not (bl == twin) or not (twin == bl) or (bl != twin):
        bad("view_equality", f"list != BondList rebuilt from the model {sorted(want)} (atom count {n})")
    # Whether two lists with the same bonds but another atom count are equal is fixed neither by the
    # statement ("equality agrees with that mapping" = pairs -> type) nor by a docstring (__eq__ has
    # none): both answers are accepted and labelled; the answer must be symmetric.
    wider = _rebuild_from_model(m, n=n + 1)
    eq_wider = bool(bl == wider)
    if eq_wider != bool(wider == bl) or eq_wider == bool(bl != wider):
        bad("view_equality", f"==/!= against the same bonds with atom count {n + 1}: not symmetric / == and != agree")
    if notes is not None:
        notes.add("eq_ignores_atom_count" if eq_wider else "eq_compares_atom_count")
    if want:
        rows = m.rows()
        rows[0] = [rows[0][0], rows[0][1], (rows[0][2] + 1) % 10]
        if bl == _rebuild_from_model(m, rows=rows):
            bad("view_equality", "list == a list in which one bond has another type")
        if bl == _rebuild_from_model(m, rows=m.rows()[1:]):
            bad("view_equality", "list == a list that lacks one bond")
    return v


def _compare(o, real, model, ctx, notes=None):
    for clause, msg in _view_violations(real, model, ctx, notes):
        o.fail(clause, msg)
    return o.ok


# --------------------------------------------------------------------------
# op-list interpreter
# --------------------------------------------------------------------------
class _State:
    def __init__(self, real, model):
        self.real = real
        self.model = model
        self.shadows = []  # (object, snapshot, description): must never change again
        self.labels = set()
        self.ctor_dups = 0
        self.removed = 0
        self.unsorted_index = False
        self.stepped_slice = False
        self.neg_index = False
        self.excluded = []
        self.aliased = False

    def shadow(self, obj, model, desc):
        self.shadows.append((obj, model.snapshot(), desc))
        del self.shadows[:-5]


def _atom(st_, r, neg):
    """raw integer -> index valid for the current atom count (n > 0)."""
    n = st_.model.n
    i = r % n
    if neg:
        i -= n
        st_.neg_index = True
        if i == -n:
            st_.labels.add("idx=-n")
    elif i == n - 1:
        st_.labels.add("idx=n-1")
    return i


def _bond_type_arg(t, mode):
    from biotite.structure import BondType

    return BondType(t) if mode == 1 else t


def _select(picks, full, n):
    """distinct atom indices in a generated (usually unsorted) order."""
    pool = list(range(n))
    sel = []
    for r in picks:
        if not pool:
            break
        sel.append(pool.pop(r % len(pool)))
    if full:
        i = 0
        while pool:
            r = picks[i % len(picks)] if picks else 0
            sel.append(pool.pop(r % len(pool)))
            i += 1
    return sel


def _with_negatives(sel, neg_bits, n):
    return [(x - n) if (neg_bits >> (j % 62)) & 1 else x for j, x in enumerate(sel)]


def _apply(o, st_, op):
    """Interpret one op on the real list and on the model.  Returns False if
    the history cannot continue (a violation was recorded)."""
    from biotite.structure import BondList

    name = op[0]
    real, model = st_.real, st_.model
    n = model.n
    st_.labels.add(name)

    def np_scalar(rest):
        """optional trailing op field: dtype of the NumPy scalar the atom indices are given as"""
        dt = rest[0] if rest else None
        if dt is not None:
            st_.labels.add("index_numpy_scalar")
        return dt

    def argument(spec, n_arg, cur):
        """the other operand: a fresh list built from the spec, or (spec "self") the list under
        test itself (aliased operand)"""
        if spec == "self":
            st_.aliased = True
            st_.labels.add(f"aliased_{name}")
            return real, model
        return _build(spec, n_arg, cur)

    if name in ("add", "remove"):
        _, ra, rb, nega, negb, t, mode, _unused, *rest = op
        sdt = np_scalar(rest)
        if n == 0:
            st_.labels.add("skipped_n=0")
            return True
        if ra % n == rb % n:
            # a bond of an atom with itself is outside the quantifier: take the next atom
            if n < 2:
                st_.labels.add("skipped_n<2")
                return True
            rb = ra % n + 1
        a, b = _atom(st_, ra, nega), _atom(st_, rb, negb)
        ga, gb = _scalar(a, sdt), _scalar(b, sdt)  # as given to the real list
        if name == "add":
            if mode == 2:
                real.add_bond(ga, gb)
                existed = model.add(a, b, 0)
            else:
                real.add_bond(ga, gb, _bond_type_arg(t, mode))
                existed = model.add(a, b, t)
            st_.labels.add("add_updates_existing" if existed else "add_new")
        else:
            real.remove_bond(ga, gb)
            st_.removed += model.remove(a, b)
        return True

    if name in ("add_existing", "remove_existing", "remove_to_bonded"):
        _, k, swap, nega, negb, t, mode, *rest = op
        sdt = np_scalar(rest)
        keys = model.keys()
        if not keys:
            st_.labels.add("skipped_no_bonds")
            return True
        a, b = keys[k % len(keys)]
        if swap:
            a, b = b, a
        a, b = _atom(st_, a, nega), _atom(st_, b, negb)
        old = model.b[key_of(a % n, b % n)]
        ga, gb = _scalar(a, sdt), _scalar(b, sdt)  # as given to the real list
        if name == "add_existing":
            real.add_bond(ga, gb, _bond_type_arg(t, mode))
            model.add(a, b, t)
            st_.labels.add("add_updates_existing")
            if old != t:
                st_.labels.add("add_changes_type")
        elif name == "remove_existing":
            real.remove_bond(ga, gb)
            st_.removed += model.remove(a, b)
        else:
            real.remove_bonds_to(ga)
            st_.removed += model.remove_to(a)
        return True

    if name == "remove_to":
        _, ra, neg, *rest = op
        sdt = np_scalar(rest)
        if n == 0:
            st_.labels.add("skipped_n=0")
            return True
        a = _atom(st_, ra, neg)
        real.remove_bonds_to(_scalar(a, sdt))
        st_.removed += model.remove_to(a)
        return True

    if name == "remove_bonds":
        _, spec, same_n, n2 = op
        other_r, other_m = argument(spec, n if same_n else n2, model)
        real.remove_bonds(other_r)
        st_.removed += model.remove_bonds(other_m)
        if other_r is not real:
            st_.shadow(other_r, other_m, "argument of remove_bonds")
        return True

    if name == "merge":
        _, spec, same_n, n2, self_is_arg = op
        other_r, other_m = argument(spec, n if same_n else n2, model)
        if other_r is not real:
            st_.ctor_dups += other_m.ctor_collisions
        if model.merge_overlap(other_m):
            st_.labels.add("merge_type_conflict")
        if self_is_arg:
            new_r, new_m = other_r.merge(real), other_m.merge(model)
        else:
            new_r, new_m = real.merge(other_r), model.merge(other_m)
        st_.shadow(real, model, "receiver of merge")
        if other_r is not real:
            st_.shadow(other_r, other_m, "argument of merge")
        st_.real, st_.model = new_r, new_m
        return True

    if name == "plus":
        _, spec, n2, other_first = op
        other_r, other_m = argument(spec, n2, None)
        if other_first:
            new_r, new_m = other_r + real, BondModel.concatenate([other_m, model])
        else:
            new_r, new_m = real + other_r, BondModel.concatenate([model, other_m])
        st_.shadow(real, model, "operand of +")
        if other_r is not real:
            st_.shadow(other_r, other_m, "operand of +")
        st_.real, st_.model = new_r, new_m
        return True

    if name == "concat":
        _, before, after, container = op
        pre = [argument(s, k, None) for s, k in before]
        post = [argument(s, k, None) for s, k in after]
        reals = [r for r, _ in pre] + [real] + [r for r, _ in post]
        models = [m_ for _, m_ in pre] + [model] + [m_ for _, m_ in post]
        if container == "tuple":
            arg = tuple(reals)
        elif container == "iter":
            arg = iter(reals)
        else:
            arg = reals
        new_r = BondList.concatenate(arg)
        new_m = BondModel.concatenate(models)
        seen = []
        for r, m_ in zip(reals, models):
            if not any(r is x for x in seen):
                seen.append(r)
                st_.shadow(r, m_, "element of concatenate")
        st_.real, st_.model = new_r, new_m
        st_.labels.add(f"concat_{len(reals)}")
        return True

    if name == "offset":
        if op[1] < 1:
            # docstring: "Must be positive" - 0 is not a documented argument
            st_.labels.add("skipped_offset_0")
            return True
        real.offset_indices(op[1])
        model.offset(op[1])
        return True

    if name == "dearom":
        plain = [k for k, t in model.b.items() if t == 9]
        real.remove_aromaticity()
        # plain AROMATIC (no formal order): the docstrings fix only AROMATIC_{ORDER} -> {ORDER}; the
        # model takes over what the real list did with these bonds if that is ANY or "unchanged"
        # (models/bond_model.py PLAIN_AROMATIC_TARGETS), every other bond is fully determined
        seen = {}
        if plain:
            seen = {(a, b): t for a, b, t in real.as_set() if (a, b) in set(plain)}
            kept = sorted({seen.get(k) for k in plain} - {0}, key=str)
            st_.labels.add("dearom_plain_aromatic_to_any" if not kept else f"dearom_plain_aromatic_to_{kept}")
        if model.remove_aromaticity(seen):
            st_.labels.add("dearom_changes_type")
        return True

    if name == "deorder":
        real.remove_bond_order()
        model.remove_bond_order()
        return True

    if name == "copy":
        clone = real.copy()
        o.check(clone == real and real == clone, "copy_equal", "copy() != original")
        o.check(clone is not real, "copy_equal", "copy() returned the same object")
        if op[1]:
            st_.shadow(real, model, "original of copy()")
            st_.real = clone
        else:
            st_.shadow(clone, model, "result of copy()")
        st_.model = model.copy()
        return o.ok

    # ---- index operations: bl[index] replaces the current list
    if name == "index_mask":
        _, bits, drop_mode, layout, narrowed_from = op
        if narrowed_from:
            st_.excluded.append(F2)
        if drop_mode:
            mask = [not (((bits >> (i % 62)) & 1) and ((bits >> ((i + 31) % 62)) & 1)) for i in range(n)]
        else:
            mask = [bool((bits >> (i % 62)) & 1) for i in range(n)]
        sel = [i for i in range(n) if mask[i]]
        index = mask if layout == "list" else _layout(np.array(mask, dtype=bool), layout)
        st_.labels.add(f"mask_{layout}")
        if layout in NONCONTIGUOUS_MASKS and not index.flags.c_contiguous:
            try:
                new_r = real[index]
            except ValueError as e:
                # any ValueError here is "this memory layout of a valid mask is refused" (the wording
                # is NumPy's, not biotite's, and is not looked at)
                o.fail(
                    CLAUSE_MASK_LAYOUT,
                    f"bond_list[mask] with a {layout} boolean mask of {n} atoms raised ValueError: {e}",
                )
                return False
        else:
            new_r = real[index]
    elif name in ("index_array", "index_list"):
        _, picks, neg_bits, full, dtype, layout = op
        sel = _select(picks, full, n)
        fitted = _fit_dtype(dtype, n)
        if fitted != dtype and name == "index_array" and findings.is_open(F3):
            st_.excluded.append(F3)
        dtype = fitted
        signed = dtype in SIGNED or name == "index_list"
        given = _with_negatives(sel, neg_bits, n) if signed else list(sel)
        if any(x < 0 for x in given):
            st_.neg_index = True
        if name == "index_list":
            index = given
        else:
            index = _layout(np.array(given, dtype=dtype), "strided" if layout == "strided" else "C")
            st_.labels.add(f"index_dtype_{dtype}")
        if len(sel) >= 2 and sel != sorted(sel):
            st_.unsorted_index = True
        if not sel:
            st_.labels.add("index_empty")
        new_r = real[index]
    elif name == "index_slice":
        _, start, stop, step = op
        sel = list(range(n))[slice(start, stop, step)]
        if step not in (None, 1) and len(sel) >= 2:
            st_.stepped_slice = True
            st_.labels.add("slice_negative_step" if step < 0 else "slice_step>1")
        new_r = real[slice(start, stop, step)]
    else:
        raise ValueError(f"unknown op {name}")

    new_m = model.select(sel)
    if len(new_m.b) < len(model.b):
        st_.labels.add("index_drops_bonds")
    if new_m.b:
        st_.labels.add("index_keeps_bonds")
    st_.shadow(real, model, f"receiver of {name}")
    st_.real, st_.model = new_r, new_m
    return True


def _check_shadows(o, st_, ctx):
    for obj, snap, desc in st_.shadows:
        got = (obj.get_atom_count(), frozenset(obj.as_set()))
        if got != snap:
            o.fail(
                "operands_not_mutated",
                f"{ctx}: the {desc} changed afterwards: {sorted(got[1])} (count {got[0]}), was {sorted(snap[1])} (count {snap[0]})",
            )
            return False
    return True


def _size_label(n):
    if n == 0:
        return "n=0"
    if n <= 2:
        return "n=1..2"
    if n <= 12:
        return "n=3..12"
    return "n>12"


def run_history(case):
    o = Outcome()
    _NO_FIT[0] = bool(case.get("no_fit"))
    real, model = _build(case["init"], case["n"])
    st_ = _State(real, model)
    st_.ctor_dups = model.ctor_collisions
    if model.ctor_type_conflicts:
        st_.labels.add("ctor_type_conflict")
    init = case["init"]
    st_.labels.update(
        [
            _size_label(case["n"]),
            f"ctor_dtype_{init['dtype']}",
            f"ctor_layout_{init['layout']}",
            f"ctor_cols_{init['cols']}",
            "ctor_empty" if not model.b else "ctor_bonds",
        ]
    )
    ok = _compare(o, real, model, "after construction", st_.labels)
    for step, op in enumerate(case["ops"]):
        if not ok:
            break
        ctx = f"step {step} {op[0]}"
        if not _apply(o, st_, op):
            break
        ok = _compare(o, st_.real, st_.model, ctx, st_.labels) and _check_shadows(o, st_, ctx)
    if st_.ctor_dups:
        st_.labels.add("ctor_dup_or_reversed")
    if st_.removed:
        st_.labels.add("removal_effective")
    if st_.unsorted_index:
        st_.labels.add("unsorted_index")
    if st_.stepped_slice:
        st_.labels.add("stepped_slice")
    if st_.neg_index:
        st_.labels.add("negative_index")
    for fid in st_.excluded:
        o.exclude(fid)
    o.label(*sorted(st_.labels))
    o.mark_nontrivial(st_.ctor_dups > 0 and st_.removed > 0 and (st_.unsorted_index or st_.stepped_slice))
    return o


# --------------------------------------------------------------------------
# out-of-range indices (sandboxed)
# --------------------------------------------------------------------------
def _oor_value(kind, k, n):
    return {
        "lo1": -n - 1,
        "lo2": -n - 2,
        "lok": -n - 1 - k,
        "min32": -(2**31),
        "min32+1": -(2**31) + 1,
        "min32+k": -(2**31) + k,
        "hi0": n,
        "hi1": n + 1,
        "hi5": n + 5,
        "hik": n + k,
        "max32": 2**31 - 1,
        "max32-1": 2**31 - 2,
        "max32-k": 2**31 - 1 - k,
        # beyond 32 bits: equal to a valid index modulo 2^32 (n > 0), or the 64 bit extremes
        "wrap32": 2**32 + k % max(n, 1),
        "wrap32m": 2**32 - 1 - k % max(n, 1),
        "wrap32neg": -(2**32) + k % max(n, 1),
        "max63": 2**63 - 1,
        "min63": -(2**63),
    }[kind]


def _scalar_probe(real, method, value, other, t, vt):
    if method == "get_bonds":
        return (lambda: real.get_bonds(value)), f"get_bonds({vt})"
    if method == "getitem_int":
        return (lambda: real[value]), f"bond_list[{vt}]"
    if method == "add_bond_1":
        return (lambda: real.add_bond(value, other, t)), f"add_bond({vt}, {other}, {t})"
    if method == "add_bond_2":
        return (lambda: real.add_bond(other, value, t)), f"add_bond({other}, {vt}, {t})"
    if method == "remove_bond_1":
        return (lambda: real.remove_bond(value, other)), f"remove_bond({vt}, {other})"
    if method == "remove_bond_2":
        return (lambda: real.remove_bond(other, value)), f"remove_bond({other}, {vt})"
    if method == "remove_bonds_to":
        return (lambda: real.remove_bonds_to(value)), f"remove_bonds_to({vt})"
    raise ValueError(method)


def _probe_call(real, model, probe, value):
    """Returns a zero-argument callable performing the probed call, and a
    description.  Everything is prepared in the parent; only the call itself
    and the comparison afterwards run in the child."""
    from biotite.structure import BondList

    n = model.n
    method = probe["method"]
    other = probe["other"] % n if n else 0
    if n and probe["other_neg"]:
        other -= n
    t = probe["type"]
    if method in SCALAR_METHODS:
        sdt = probe.get("scalar_dtype")
        value = _scalar(value, sdt)
        return _scalar_probe(real, method, value, other, t, f"np.{value.dtype}({value})" if sdt else str(value))
    if method in CONTAINS_METHODS:
        # membership is asked with a non-negative partner (a negative one is refused by itself today)
        other = probe["other"] % n if n else 0
        pair = (value, other) if method == "contains_1" else (other, value)
        return (lambda: pair in real), f"{pair} in bond_list"
    if method in ("getitem_array", "getitem_list"):
        sel = _select(probe["picks"], False, n)
        pos = probe["pos"] % (len(sel) + 1)
        idx = sel[:pos] + [value] + sel[pos:]
        if method == "getitem_list":
            return (lambda: real[idx]), f"bond_list[{idx}]"
        dtype = _dtype_for(value, _fit_dtype(probe["dtype"], n))
        arr = np.array(idx, dtype=dtype)
        return (lambda: real[arr]), f"bond_list[np.array({idx}, dtype={dtype})]"
    if method in ("ctor_2", "ctor_3"):
        cols = 2 if method == "ctor_2" else 3
        rows = [r[:cols] for r in model.rows()]
        bad = [other, other, t][:cols]
        bad[probe["pos"] % 2] = value
        pos = probe["pos"] % (len(rows) + 1)
        rows = rows[:pos] + [bad] + rows[pos:]
        dtype = _dtype_for(value, _fit_dtype(probe["dtype"], n))
        if any(x < 0 for r in rows for x in r) and dtype not in SIGNED:
            dtype = "int64"
        arr = np.array(rows, dtype=dtype).reshape(-1, cols)
        return (lambda: BondList(n, arr)), f"BondList({n}, np.array({rows}, dtype={dtype}))"
    raise ValueError(method)


def _child(call, real, model):
    try:
        r = call()
        outcome, detail = ("False" if r is False else "returned"), repr(r)[:300]
    except IndexError as e:
        outcome, detail = "IndexError", str(e)[:300]
    except Exception as e:  # noqa: BLE001 - reported, not swallowed: any other type is a violation
        outcome, detail = "raised", f"{type(e).__name__}: {e}"[:300]
    post = _view_violations(real, model, "after the rejected call")
    return {"outcome": outcome, "detail": detail, "post": [list(p) for p in post[:3]]}


SANDBOX_TIMEOUTS = (60, 180)  # seconds: first attempt, second attempt after a timeout


def run_oor(case):
    o = Outcome()
    _NO_FIT[0] = bool(case.get("no_fit"))
    real, model = _build(case["init"], case["n"])
    st_ = _State(real, model)
    for op in case["ops"]:
        if not _apply(o, st_, op):
            return o
    real, model = st_.real, st_.model
    n = model.n
    if not _compare(o, real, model, "before the probe"):
        return o
    probe = case["probe"]
    value = _oor_value(probe["kind"], probe["k"], n)
    assert value < -n or value >= n
    call, text = _probe_call(real, model, probe, value)
    # The child's work takes milliseconds.  A timeout says something about the machine (load, a lock
    # held at fork time, a stopped process group), not about the index check: the probe is repeated
    # once with a longer limit (the parent's list is untouched, the child works on its own copy) and
    # a second timeout leaves the case undecided - it is counted, never reported.
    status, payload = run_sandboxed(_child, call, real, model, timeout=SANDBOX_TIMEOUTS[0])
    if status == "timeout":
        o.label("sandbox_timeout_retried")
        status, payload = run_sandboxed(_child, call, real, model, timeout=SANDBOX_TIMEOUTS[1])
    where = f"{text} on a list of {n} atoms / {len(model.b)} bonds"
    contains = probe["method"] in CONTAINS_METHODS
    if status == "timeout":
        o.ambiguous += 1
        o.label("sandbox_timeout_undecided")
    elif status == "signal":
        o.fail(CLAUSE_OOR, f"{where}: process terminated by {payload}")
    elif status != "ok":
        o.fail(CLAUSE_OOR, f"{where}: child ended with {status} {payload}")
    else:
        outcome = payload["outcome"]
        if contains:
            # `in` has no docstring: "this pair is not a bond" (False) and a refusal with any
            # exception are both a rejection of the index; True would be a bond to a non-atom
            o.label(
                {
                    "False": "contains_answers_False",
                    "IndexError": "contains_raises_IndexError",
                    "raised": "contains_raises_other",
                }.get(outcome, "contains_other")
            )
            if outcome == "returned":
                o.fail(CLAUSE_OOR, f"{where}: is {payload['detail']}")
        elif outcome in ("returned", "False"):
            o.fail(CLAUSE_OOR, f"{where}: returned {payload['detail']} instead of raising IndexError")
        elif outcome == "raised":
            o.fail(CLAUSE_OOR, f"{where}: raised {payload['detail']} instead of IndexError")
        for clause, msg in payload["post"]:
            o.fail(CLAUSE_OOR, f"{where}: list changed ({clause}) {msg}")
    if case.get("narrowed_from"):
        o.exclude(F1)
    for fid in st_.excluded:
        o.exclude(fid)
    o.label(probe["method"], probe["kind"], _size_label(n), "has_bonds" if model.b else "no_bonds")
    o.label("below_-n" if value < -n else "at_or_above_n")
    o.label("beyond_32_bit" if not -(2**31) <= value < 2**31 else "fits_32_bit")
    if probe["method"] in SCALAR_METHODS:
        o.label("scalar_numpy" if probe.get("scalar_dtype") else "scalar_python_int")
    if st_.labels & {"merge", "plus", "concat", "index_mask", "index_array", "index_list", "index_slice", "copy"}:
        o.label("probed_after_merge/concat/index")
    o.mark_nontrivial(len(model.b) >= 1)
    return o


# --------------------------------------------------------------------------
# strategies
# --------------------------------------------------------------------------
RAW = st.integers(0, 2**16)
TYPE = st.integers(0, 9)
BITS = st.integers(0, 2**62 - 1)
# dtype of the NumPy scalar an atom index is given as (None = Python int)
SCALAR_DTYPE = st.one_of(st.none(), st.sampled_from(INT_DTYPES + ["int64", "int32"]))


def st_row():
    # 6th field: unused (was "self pair allowed"), kept so that stored cases keep their shape
    return st.tuples(RAW, RAW, TYPE, st.booleans(), st.booleans(), st.just(False)).map(list)


def st_spec(max_rows, allow_cur):
    # the parts are built once, not once per drawn case
    long_rows = st.lists(st_row(), min_size=min(4, max_rows), max_size=max_rows)
    base_rows = st.one_of(st.lists(st_row(), max_size=3), long_rows, long_rows)
    echo_rows = st.lists(st.tuples(RAW, st.booleans(), TYPE, st.booleans(), st.booleans()), max_size=3)
    cur_row = st.tuples(st.just("cur"), RAW, st.booleans(), TYPE).map(list)
    cur_rows = [st.lists(cur_row, min_size=0, max_size=4), st.lists(cur_row, min_size=1, max_size=4)]
    cols = st.sampled_from([2, 3, 3, 3])
    dtypes = st.sampled_from(INT_DTYPES)
    layouts = st.sampled_from(["C", "C"] + ARRAY_LAYOUTS)

    @st.composite
    def gen(draw):
        base = draw(base_rows)
        rows = list(base)
        if base:
            for k, swap, t, na, nb in draw(echo_rows):
                src = base[k % len(base)]
                a, b = (src[1], src[0]) if swap else (src[0], src[1])
                rows.append([a, b, t, na, nb, False])
        if allow_cur:
            cur = draw(cur_rows[draw(st.integers(0, 1))])
            rows = cur + rows if draw(st.booleans()) else rows + cur
        return {
            "rows": rows,
            "cols": draw(cols),
            "dtype": draw(dtypes),
            "layout": draw(layouts),
            "none": draw(st.booleans()),
        }

    return gen()


def _mask_op(f2_open):
    def build(t):
        bits, drop_mode, layout = t
        if f2_open and layout in NONCONTIGUOUS_MASKS:
            return ["index_mask", bits, drop_mode, "C", layout]
        return ["index_mask", bits, drop_mode, layout, None]

    return st.tuples(BITS, st.booleans(), st.sampled_from(["C"] + MASK_LAYOUTS)).map(build)  # C twice


def st_op(tier, in_place_only=False):
    big = tier == "thorough"
    small_n = st.integers(0, 8 if not big else 20)
    # the other operand: a fresh list, or (1 in 10) the list under test itself
    fresh = st_spec(6 if not big else 14, allow_cur=True)
    other = st.one_of(*([fresh] * 9), st.just("self"))
    fresh_plain = st_spec(6 if not big else 14, allow_cur=False)
    plain = st.one_of(*([fresh_plain] * 9), st.just("self"))
    mode = st.sampled_from([0, 1, 1, 2])
    bound = 15 if not big else 70
    picks = st.lists(st.integers(0, 1000), max_size=12 if not big else 40)

    add = st.tuples(
        st.just("add"), RAW, RAW, st.booleans(), st.booleans(), TYPE, mode, st.just(False), SCALAR_DTYPE
    ).map(list)
    remove = st.tuples(
        st.just("remove"), RAW, RAW, st.booleans(), st.booleans(), st.just(0), st.just(0), st.just(False), SCALAR_DTYPE
    ).map(list)

    def existing(name):
        return st.tuples(
            st.just(name),
            RAW,
            st.booleans(),
            st.booleans(),
            st.booleans(),
            TYPE,
            st.sampled_from([0, 1]),
            SCALAR_DTYPE,
        ).map(list)

    remove_to = st.tuples(st.just("remove_to"), RAW, st.booleans(), SCALAR_DTYPE).map(list)
    # remove_bonds(self) empties the list: rarer, so that it does not flatten the rest of the history
    remove_bonds = st.tuples(
        st.just("remove_bonds"), st.one_of(*([fresh] * 24), st.just("self")), st.booleans(), small_n
    ).map(list)
    offset = st.tuples(st.just("offset"), st.integers(1, 4)).map(list)  # docstring: "Must be positive"
    in_place = [
        add,
        add,
        existing("add_existing"),
        remove,
        existing("remove_existing"),
        existing("remove_existing"),
        remove_to,
        existing("remove_to_bonded"),
        remove_bonds,
        offset,
        st.just(["dearom"]),
        st.just(["deorder"]),
    ]
    if in_place_only:
        return st.one_of(*in_place)

    merge = st.tuples(st.just("merge"), other, st.booleans(), small_n, st.booleans()).map(list)
    plus = st.tuples(st.just("plus"), plain, small_n, st.booleans()).map(list)
    elem = st.tuples(plain, small_n).map(list)
    concat = st.tuples(
        st.just("concat"),
        st.lists(elem, max_size=2),
        st.lists(elem, max_size=2),
        st.sampled_from(["list", "tuple", "iter"]),
    ).map(list)
    index_array = st.tuples(
        st.just("index_array"),
        picks,
        BITS,
        st.booleans(),
        st.sampled_from(INT_DTYPES + ["int32", "int64"]),  # the dtypes of np.where / np.arange twice
        st.sampled_from(["C", "C", "strided"]),
    ).map(list)
    index_list = st.tuples(st.just("index_list"), picks, BITS, st.booleans(), st.just("int64"), st.just("C")).map(list)
    sl_bound = st.one_of(st.none(), st.none(), st.integers(-bound, bound))
    index_slice = st.tuples(
        st.just("index_slice"), sl_bound, sl_bound, st.sampled_from([None, 1, 2, 2, 3, 5, -1, -1, -2, -2, -3])
    ).map(list)
    copy = st.tuples(st.just("copy"), st.booleans()).map(list)
    return st.one_of(
        *in_place,
        merge,
        merge,
        plus,
        concat,
        _mask_op(findings.is_open(F2)),
        _mask_op(findings.is_open(F2)),
        index_array,
        index_array,
        index_array,
        index_array,
        index_array,
        index_list,
        index_list,
        index_slice,
        index_slice,
        index_slice,
        copy,
    )


def st_n(tier):
    small = st.one_of(st.integers(3, 12), st.integers(3, 12), st.integers(0, 12))
    if tier == "thorough":
        return st.one_of(small, small, st.integers(0, 60))
    return small


def st_history(tier):
    big = tier == "thorough"
    return st.fixed_dictionaries(
        {
            "n": st_n(tier),
            "init": st_spec(14 if not big else 45, allow_cur=False),
            "ops": st.lists(st_op(tier), min_size=2, max_size=10 if not big else 25),
        }
    )


def st_oor(tier):
    big = tier == "thorough"
    f1_open = findings.is_open(F1)
    # strategies are built once per call of st_oor, not once per drawn case
    n_atoms = st_n(tier)
    init = st_spec(10 if not big else 30, allow_cur=False)
    in_place_op = st_op(tier, in_place_only=True)
    in_place = st.lists(in_place_op, max_size=3)
    # 1 in 3: the probed list (its atom count and cached maximum) comes out of merge / + /
    # concatenate / bl[index] / copy rather than out of the constructor and in-place edits
    derived = st.tuples(st.lists(st_op(tier), min_size=1, max_size=2), st.lists(in_place_op, max_size=1)).map(
        lambda t: t[0] + t[1]
    )
    ops = st.one_of(in_place, in_place, derived)

    @st.composite
    def gen(draw):
        method = draw(st.sampled_from(SCALAR_METHODS + ARRAY_METHODS + ARRAY_METHODS + CONTAINS_METHODS))
        wide = method not in SCALAR_METHODS
        kind = draw(
            st.sampled_from(["lo1", "lo2"] + LO_KINDS + (WIDE_LO_KINDS * 2 if wide else []))
            if draw(st.booleans())
            else st.sampled_from(["hi0", "hi1"] + HI_KINDS + (WIDE_HI_KINDS * 2 if wide else []))
        )
        narrowed_from = None
        if f1_open and method in SCALAR_METHODS and kind in LO_KINDS:
            # open finding C02-F1: a scalar index < -n is mapped to its mirror image >= n
            narrowed_from, kind = kind, MIRROR[kind]
        probe = {
            "method": method,
            "kind": kind,
            "k": draw(st.integers(0, 50)),
            "other": draw(RAW),
            "other_neg": draw(st.booleans()),
            "type": draw(TYPE),
            "picks": draw(st.lists(st.integers(0, 1000), max_size=6)),
            "pos": draw(st.integers(0, 50)),
            "dtype": draw(st.sampled_from(INT_DTYPES)),
            "scalar_dtype": draw(SCALAR_DTYPE) if method in SCALAR_METHODS else None,
        }
        return {
            "n": draw(n_atoms),
            "init": draw(init),
            "ops": draw(ops),
            "probe": probe,
            "narrowed_from": narrowed_from,
        }

    return gen()


# --------------------------------------------------------------------------
# known findings
# --------------------------------------------------------------------------
def bondlist_index_below_minus_n(sub, case, clause, message):
    """C02-F1: a *scalar* atom index < -n given to the compiled methods."""
    if sub != "oor_index" or clause != CLAUSE_OOR:
        return False
    p = case["probe"]
    return p["method"] in SCALAR_METHODS and p["kind"] in LO_KINDS


def bondlist_noncontiguous_mask(sub, case, clause, message):
    """C02-F2: bond_list[mask] with a boolean mask that is not C-contiguous."""
    if clause != CLAUSE_MASK_LAYOUT:
        return False
    return any(op[0] == "index_mask" and op[3] in NONCONTIGUOUS_MASKS for op in case["ops"])


def bondlist_index_array_dtype_narrower_than_atom_count(sub, case, clause, message):
    """C02-F3: index array whose integer dtype cannot hold the atom count."""
    if clause != "unexpected_exception" or "OverflowError" not in message:
        return False
    # matched on the input class (an 8 bit index array in the history), not on the name of the
    # private helper in which the exception happens to surface
    return any(op[0] == "index_array" and op[4] in ("int8", "uint8") for op in case.get("ops", []))


FINDINGS = {
    "bondlist_index_below_minus_n": bondlist_index_below_minus_n,
    "bondlist_noncontiguous_mask": bondlist_noncontiguous_mask,
    "bondlist_index_array_dtype_narrower_than_atom_count": bondlist_index_array_dtype_narrower_than_atom_count,
}

SUBS = [
    Sub(
        "history",
        st_history,
        run_history,
        quick=4000,
        thorough=160000,
        rule=">= 1 duplicate/reversed construction pair, >= 1 effective removal and >= 1 index operation "
        "with an unsorted index array/list or a stepped slice (>= 2 atoms selected)",
        clauses="observational equality with the pair->type mapping after construction and after every "
        "add/remove/merge/+/concatenate/offset/remove_aromaticity/remove_bond_order/index/copy step; all "
        "views (as_set, as_array, get_bonds, bl[int], get_all_bonds, adjacency_matrix, bond_type_matrix, "
        "as_graph, membership, ==, counts); operands of non-mutating operations stay unchanged (also when "
        "the list itself is given as the other operand).  Not judged: self pairs (i, i), offset 0, whether == "
        "looks at the atom count, the target of plain AROMATIC in remove_aromaticity (ANY or unchanged)",
    ),
    Sub(
        "oor_index",
        st_oor,
        run_oor,
        quick=1600,
        thorough=64000,
        rule="the list holds >= 1 bond when the out-of-range index is fed",
        clauses="an atom index outside [-n, n) is rejected with IndexError, the list is unchanged, the "
        "process survives (get_bonds, bl[int], add_bond, remove_bond, remove_bonds_to - index given as Python "
        "int or NumPy integer scalar; index arrays, index lists, construction arrays - also with values "
        "beyond 32 bits); membership (i, j) in bl with such an index: False or any exception, never True, "
        "list unchanged; probed lists come from the constructor + in-place edits or from merge/+/concatenate/"
        "indexing",
    ),
]
