"""
C11  Alignments keep valid traces through every conversion; MSAs align the inputs.

The reference model works on plain Python data only: a trace is a list of
columns (lists of int, -1 = gap), sequences are Python strings.  Every helper
of biotite (gapped strings, code/symbol matrices, terminal gaps, gap removal,
identities, score, CIGAR, FASTA) is recomputed by a loop over the columns.

What CIGAR / FASTA / gapped strings can carry (read from the docstrings):

* gapped strings and FASTA hold only the *aligned part* of every sequence, so
  ``trace_from_strings`` / ``get_alignment`` return the trace counted from 0
  for every sequence (equal to the original trace iff it is not clipped).
* CIGAR describes reference vs. segment.  Without ``include_terminal_gaps`` the
  columns before the first / after the last aligned segment base are dropped.
  Unaligned segment bases at the ends are clipped: soft-clipped bases stay in
  the segment sequence handed to the reader (segment indices are reproduced),
  hard-clipped bases are *not* part of the sequence handed to the reader (the
  segment must be sliced, indices shift by the start clip).  ``position`` is
  the reference index of the first reference base of the written columns
  (terminal deletions count when they are included).  'N' reads back as a
  deletion, '='/'X' as match columns.
"""

import io
import re

import numpy as np
from hypothesis import strategies as st

from vlib import Enum, Outcome, Sub, findings

PROPERTY = "C11"
RULE = (
    "random valid traces of 2..5 sequences built column-wise from (presence mask, run length) runs with "
    "optional clipped ends; pairwise alignments produced by align_optimal / align_banded / align_local_gapped; "
    "random CIGAR strings; sequence sets for align_multiple.  Non-trivial = trace with >= 1 internal gap and "
    ">= 1 terminal gap (conversions); MSA with >= 3 sequences of different lengths.  Restrictions by "
    "construction: all rows of one alignment share one alphabet; nucleotide rows use ACGT only and protein rows "
    "the 20 standard letters and '*' (FASTA rewrites other symbols, e.g. X->N, U->C, O->K, so that the "
    "round trip does not return the same sequences there); standard symmetric substitution matrices only"
)

LETTERS = {"nuc": "ACGT", "prot": "ACDEFGHIKLMNPQRSTVWY"}
POOLS = {
    "nuc": ["A", "AC", "ACGT", "ACGT"],
    # the stop symbol '*' is a regular symbol of a protein sequence (it is not a letter!)
    "prot": ["L", "LK", "AGKL", "ACDEFGHIKLMNPQRSTVWY", "LK*", "ACDEFGHIKLMNPQRSTVWY*"],
}
# letters that can only be read as protein by the FASTA type guesser
PROT_ONLY = set("EFILPQ")
F1 = "C11-F1"


# --------------------------------------------------------------------------
# building biotite objects from plain data
# --------------------------------------------------------------------------
def _mk_seq(kind, s):
    from biotite.sequence import NucleotideSequence, ProteinSequence

    return NucleotideSequence(s) if kind == "nuc" else ProteinSequence(s)


_MATRICES = {}


def _matrix(kind):
    if kind not in _MATRICES:
        from biotite.sequence.align import SubstitutionMatrix

        _MATRICES[kind] = (
            SubstitutionMatrix.std_nucleotide_matrix() if kind == "nuc" else SubstitutionMatrix.std_protein_matrix()
        )
    return _MATRICES[kind]


def _gap(g):
    return tuple(g) if isinstance(g, (list, tuple)) else int(g)


def _mk_alignment(kind, seqs, cols):
    from biotite.sequence.align import Alignment

    n = len(seqs)
    trace = np.array(cols, dtype=np.int64).reshape(-1, n)
    return Alignment([_mk_seq(kind, s) for s in seqs], trace, None)


def cols_from_runs(n, runs, starts):
    """columns of a trace: every run is (presence bit mask, number of columns)."""
    idx = list(starts)
    cols = []
    for mask, length in runs:
        for _ in range(length):
            row = []
            for i in range(n):
                if (mask >> i) & 1:
                    row.append(idx[i])
                    idx[i] += 1
                else:
                    row.append(-1)
            cols.append(row)
    return cols


# --------------------------------------------------------------------------
# column-loop reference model
# --------------------------------------------------------------------------
def m_validity(cols, n, lens):
    """list of (clause, message)"""
    bad = []
    last = [None] * n
    for c, row in enumerate(cols):
        if len(row) != n:
            bad.append(("trace_shape", f"column {c} has {len(row)} entries for {n} sequences"))
            return bad
        if all(x == -1 for x in row):
            bad.append(("no_all_gap_column", f"column {c} consists of gaps only"))
        for i, x in enumerate(row):
            if x == -1:
                continue
            if x < 0 or (lens is not None and x >= lens[i]):
                bad.append(("index_in_range", f"column {c} seq {i}: index {x} outside [0,{lens[i] if lens else '?'})"))
            if last[i] is not None and x <= last[i]:
                bad.append(("indices_strictly_increasing", f"column {c} seq {i}: index {x} after {last[i]}"))
            last[i] = x
    return bad


def check_valid_trace(o, ali, what):
    """trace validity invariant on a biotite Alignment; returns the columns or None."""
    trace = np.asarray(ali.trace)
    n = len(ali.sequences)
    if not o.check(trace.ndim == 2 and trace.shape[1] == n, "trace_shape", f"{what}: trace shape {trace.shape} for {n} sequences"):
        return None
    if not o.check(trace.dtype.kind in "iu", "trace_shape", f"{what}: trace dtype {trace.dtype}"):
        return None
    cols = trace.tolist()
    bad = m_validity(cols, n, [len(s) for s in ali.sequences])
    for clause, msg in bad[:3]:
        o.fail(clause, f"{what}: {msg}; trace={cols}")
    return None if bad else cols


def m_is_contiguous(cols, n):
    last = [None] * n
    for row in cols:
        for i in range(n):
            if row[i] != -1:
                if last[i] is not None and row[i] != last[i] + 1:
                    return False
                last[i] = row[i]
    return True


def m_firsts(cols, n):
    """first used index of every sequence (None if it has no aligned symbol)."""
    out = [None] * n
    for row in cols:
        for i in range(n):
            if row[i] != -1 and out[i] is None:
                out[i] = row[i]
    return out


def m_shift_to_zero(cols, n):
    f = m_firsts(cols, n)
    return [[-1 if row[i] == -1 else row[i] - f[i] for i in range(n)] for row in cols]


def m_gapped(cols, seqs):
    return ["".join("-" if row[i] == -1 else seqs[i][row[i]] for row in cols) for i in range(len(seqs))]


def m_terminal(cols, n):
    """(start, stop): first column at which every sequence has started; one past
    the last column at which no sequence has ended yet."""
    started = [False] * n
    start = None
    for c, row in enumerate(cols):
        for i in range(n):
            if row[i] != -1:
                started[i] = True
        if all(started):
            start = c
            break
    ended = [False] * n
    stop = None
    for c in range(len(cols) - 1, -1, -1):
        for i in range(n):
            if cols[c][i] != -1:
                ended[i] = True
        if all(ended):
            stop = c + 1
            break
    return start, stop


def m_gap_classes(cols, n):
    """(has_terminal_gap, has_internal_gap)"""
    term = internal = False
    for i in range(n):
        pos = [c for c, row in enumerate(cols) if row[i] != -1]
        if not pos:
            continue
        for c, row in enumerate(cols):
            if row[i] == -1:
                if c < pos[0] or c > pos[-1]:
                    term = True
                else:
                    internal = True
    return term, internal


def m_matches(cols, seqs, idxs):
    cnt = 0
    for row in cols:
        syms = [None if row[i] == -1 else seqs[i][row[i]] for i in idxs]
        if None not in syms and all(s == syms[0] for s in syms):
            cnt += 1
    return cnt


def m_identity_length(cols, seqs, idxs, mode):
    """returns length or None if 'not_terminal' is undefined (no overlap)"""
    if mode == "all":
        return len(cols)
    if mode == "shortest":
        return min(len(seqs[i]) for i in idxs)
    sub = [[row[i] for i in idxs] for row in cols]
    start, stop = m_terminal(sub, len(idxs))
    if stop <= start:
        return None
    return stop - start


def m_score(cols, seqs, matrix, gap, terminal):
    """(score reading A, score reading B): the two readings differ only for a gap run
    that starts in the unpenalised terminal region and continues behind it."""
    n = len(seqs)
    total = 0
    for row in cols:
        for i in range(n):
            for j in range(i + 1, n):
                if row[i] != -1 and row[j] != -1:
                    total += int(matrix.get_score(seqs[i][row[i]], seqs[j][row[j]]))
    go, ge = gap if isinstance(gap, tuple) else (gap, gap)
    if terminal:
        lo, hi = 0, len(cols)
    else:
        lo, hi = m_terminal(cols, n)
    pen_a = pen_b = 0
    for i in range(n):
        for c in range(lo, hi):
            if cols[c][i] == -1:
                pen_a += ge if (c > lo and cols[c - 1][i] == -1) else go
                pen_b += ge if (c > 0 and cols[c - 1][i] == -1) else go
    return total + pen_a, total + pen_b


def m_score_sum_of_pairs(cols, seqs, matrix, gap, terminal):
    """Second reading of "all pairwise scores are counted" for >= 3 rows: the sum over all row
    pairs of the 2-row score (columns in which both rows of the pair have a gap do not exist
    for that pair; the terminal region is the one of the pair).  Returns (reading A, reading B)."""
    n = len(seqs)
    tot_a = tot_b = 0
    for i in range(n):
        for j in range(i + 1, n):
            sub = [[row[i], row[j]] for row in cols if not (row[i] == -1 and row[j] == -1)]
            a, b = m_score(sub, [seqs[i], seqs[j]], matrix, gap, terminal)
            tot_a += a
            tot_b += b
    return tot_a, tot_b


# --------------------------------------------------------------------------
# (a) conversions and helpers of one alignment
# --------------------------------------------------------------------------
def label_trace(o, cols, n):
    term, internal = m_gap_classes(cols, n)
    o.label(f"nseq={n}")
    if term:
        o.label("terminal_gap")
    if internal:
        o.label("internal_gap")
    if not term and not internal:
        o.label("no_gap_at_all")
    # adjacent insertion / deletion: column with gap in i followed by column with gap in j != i only
    adj = False
    for a, b in zip(cols, cols[1:]):
        ga = {i for i in range(n) if a[i] == -1}
        gb = {i for i in range(n) if b[i] == -1}
        if ga and gb and not (ga & gb):
            adj = True
    if adj:
        o.label("adjacent_ins_del")
    if cols and any(x == -1 for x in cols[0]):
        o.label("leading_gap")
    if cols and any(x == -1 for x in cols[-1]):
        o.label("trailing_gap")
    return term and internal


def conv_checks(o, ali, cols, seqs, kind, score_gap, score_terminal):
    """ali: biotite Alignment; cols/seqs: the same alignment as plain data."""
    from biotite.sequence import align
    from biotite.sequence.align import Alignment

    n = len(seqs)
    m = len(cols)
    firsts = m_firsts(cols, n)
    contiguous = m_is_contiguous(cols, n)
    clipped = any(
        f is not None and (f != 0 or f + sum(1 for row in cols if row[i] != -1) != len(seqs[i]))
        for i, f in enumerate(firsts)
    )
    if clipped:
        o.label("clipped_ends")

    # gapped strings and back
    gapped = ali.get_gapped_sequences()
    o.check_eq(list(gapped), m_gapped(cols, seqs), "gapped_strings", "get_gapped_sequences()")
    if contiguous and m > 0:
        back = Alignment.trace_from_strings(list(gapped))
        o.check_array_eq(
            back, np.array(m_shift_to_zero(cols, n), dtype=int).reshape(-1, n), "trace_from_strings_roundtrip",
            "trace_from_strings(get_gapped_sequences())",
        )
        if not clipped:
            o.check_array_eq(back, np.asarray(ali.trace), "trace_from_strings_roundtrip", "unclipped trace")

    # code and symbol matrices
    codes = align.get_codes(ali)
    want_codes = np.full((n, m), -1, dtype=np.int64)
    want_syms = [[None] * m for _ in range(n)]
    for i in range(n):
        alph = ali.sequences[i].get_alphabet()
        for c in range(m):
            if cols[c][i] != -1:
                want_syms[i][c] = seqs[i][cols[c][i]]
                want_codes[i, c] = alph.encode(seqs[i][cols[c][i]])
    o.check_array_eq(codes, want_codes, "codes_columnwise", "get_codes()")
    o.check(np.asarray(codes).dtype.kind == "i", "codes_columnwise", f"get_codes() dtype {np.asarray(codes).dtype}")
    syms = align.get_symbols(ali)
    o.check_eq([list(r) for r in syms], want_syms, "symbols_columnwise", "get_symbols()")

    # remove_gaps
    rg = align.remove_gaps(ali)
    want = [row for row in cols if all(x != -1 for x in row)]
    o.check_array_eq(rg.trace, np.array(want, dtype=int).reshape(-1, n), "remove_gaps_columnwise", "remove_gaps().trace")
    o.check(list(rg.sequences) == list(ali.sequences), "remove_gaps_columnwise", "remove_gaps() changed the sequences")

    if any(f is None for f in firsts):
        # a sequence without any aligned symbol has no defined start/end: the terminal-gap
        # based helpers are not defined for it
        o.label("row_of_gaps_only")
        if any(len(q) == 0 for q in seqs):
            o.label("empty_sequence")
        return

    # terminal gaps
    start, stop = m_terminal(cols, n)
    if stop < start:
        # Two rows do not overlap at all: "the alignment columns without terminal gaps" do not
        # exist.  The docstring does not say which indices describe that; any empty slice (or a
        # ValueError, as remove_terminal_gaps raises) is accepted.
        o.label("no_overlap")
        try:
            got = align.find_terminal_gaps(ali)
        except ValueError:
            o.label("no_overlap:find_terminal_gaps_raises")
        else:
            o.label("no_overlap:find_terminal_gaps_empty_slice")
            o.check(
                len(got) == 2 and len(cols[int(got[0]) : int(got[1])]) == 0,
                "find_terminal_gaps_columnwise",
                f"find_terminal_gaps() = {got} is not an empty slice of the {m} columns although two rows do not overlap; cols={cols}",
            )
    else:
        got = align.find_terminal_gaps(ali)
        o.check_eq((int(got[0]), int(got[1])), (start, stop), "find_terminal_gaps_columnwise", f"find_terminal_gaps() cols={cols}")
    if stop <= start:
        # nothing is left between the terminal gaps (stop == start: one row ends directly before
        # another one starts): an empty alignment or a ValueError ("... would be empty")
        if stop == start:
            o.label("overlap_of_zero_columns")
        try:
            rt = align.remove_terminal_gaps(ali)
        except ValueError:
            o.label("remove_terminal_gaps:raises_when_empty")
        else:
            o.label("remove_terminal_gaps:returns_empty")
            o.check(len(rt) == 0, "remove_terminal_gaps_columnwise", f"no overlap but {len(rt)} columns kept")
            o.check(list(rt.sequences) == list(ali.sequences), "remove_terminal_gaps_columnwise", "sequences changed")
    else:
        rt = align.remove_terminal_gaps(ali)
        o.check_array_eq(
            rt.trace, np.array(cols[start:stop], dtype=int).reshape(-1, n), "remove_terminal_gaps_columnwise",
            "remove_terminal_gaps().trace",
        )
        o.check(list(rt.sequences) == list(ali.sequences), "remove_terminal_gaps_columnwise", "sequences changed")

    # identities
    everyone = list(range(n))
    matches = m_matches(cols, seqs, everyone)
    for mode in ("all", "not_terminal", "shortest"):
        length = m_identity_length(cols, seqs, everyone, mode)
        if length is None:
            # 'not_terminal' without a column between the terminal gaps: matches / 0 columns.
            # Neither the property nor the docstring says what happens (biotite raises
            # ValueError); an error or a value that is still "between 0 and 1" / NaN is accepted.
            try:
                got = float(align.get_sequence_identity(ali, mode))
            except Exception as e:  # noqa: BLE001 - undefined quotient, any error is legitimate
                o.label(f"identity_undefined:{type(e).__name__}")
            else:
                o.label("identity_undefined:value")
                o.check(got != got or 0.0 <= got <= 1.0, "identity_columnwise", f"identity {mode} without overlap: {got} is neither NaN nor in [0, 1]; cols={cols}")
        else:
            got = align.get_sequence_identity(ali, mode)
            o.check(abs(float(got) - matches / length) <= 1e-12, "identity_columnwise", lambda: f"identity {mode}: got {got}, want {matches}/{length}; cols={cols} seqs={seqs}")
        # pairwise matrix
        want_m = np.zeros((n, n))
        defined = np.ones((n, n), dtype=bool)
        for i in range(n):
            for j in range(n):
                ln = m_identity_length(cols, seqs, [i, j], mode)
                if ln is None:
                    defined[i, j] = False
                else:
                    want_m[i, j] = m_matches(cols, seqs, [i, j]) / ln
        if not defined.all():
            # a pair of rows without a column between its terminal gaps: see above - an error, or
            # a matrix whose defined entries equal the column loop and whose other entries are
            # NaN or in [0, 1]
            try:
                with np.errstate(all="ignore"):
                    got_m = np.asarray(align.get_pairwise_sequence_identity(ali, mode), dtype=float)
            except Exception as e:  # noqa: BLE001
                o.label(f"pairwise_identity_undefined:{type(e).__name__}")
                continue
            o.label("pairwise_identity_undefined:value")
            if o.check(got_m.shape == (n, n), "pairwise_identity_columnwise", f"shape {got_m.shape}"):
                o.check(bool(np.all(np.abs(got_m[defined] - want_m[defined]) <= 1e-12)), "pairwise_identity_columnwise", lambda: f"{mode}: got {got_m.tolist()}, want {want_m.tolist()} where defined; cols={cols} seqs={seqs}")
                rest = got_m[~defined]
                o.check(bool(np.all(np.isnan(rest) | ((rest >= 0.0) & (rest <= 1.0)))), "pairwise_identity_columnwise", lambda: f"{mode}: entries of pairs without overlap {rest.tolist()} neither NaN nor in [0, 1]")
            continue
        got_m = np.asarray(align.get_pairwise_sequence_identity(ali, mode), dtype=float)
        if o.check(got_m.shape == (n, n), "pairwise_identity_columnwise", f"shape {got_m.shape}"):
            o.check(bool(np.all(np.abs(got_m - want_m) <= 1e-12)), "pairwise_identity_columnwise", lambda: f"{mode}: got {got_m.tolist()}, want {want_m.tolist()}; cols={cols} seqs={seqs}")
            o.check(bool(np.array_equal(got_m, got_m.T)), "pairwise_identity_symmetric", lambda: f"{mode}: {got_m.tolist()}")
            if mode == "shortest" and not clipped:
                # every symbol of sequence i is aligned to itself: matches == len(seq i)
                o.check(bool(np.all(np.diag(got_m) == 1.0)), "pairwise_identity_unit_diagonal", lambda: f"{mode}: diagonal {np.diag(got_m).tolist()}")

    # score
    gap = _gap(score_gap)
    matrix = _matrix(kind)
    want_a, want_b = m_score(cols, seqs, matrix, gap, score_terminal)
    accepted = {want_a: "rows", want_b: "rows"}
    if n >= 3:
        # "If the alignment contains more than two sequences, all pairwise scores are counted":
        # biotite charges every gap of every ROW once; charging the gaps of every row PAIR
        # (sum of the 2-row scores) is the other reading of that sentence - both accepted.
        # For two rows both readings coincide (strict comparison).
        for v in m_score_sum_of_pairs(cols, seqs, matrix, gap, score_terminal):
            accepted.setdefault(v, "sum_of_pairs")
    if stop < start and not score_terminal:
        # the unpenalised terminal region is taken from find_terminal_gaps(), which is not
        # defined without overlap (see above): a ValueError is accepted as well
        try:
            got = align.score(ali, matrix, gap, score_terminal)
        except ValueError:
            o.label("score_no_overlap:raises")
            return
    else:
        got = align.score(ali, matrix, gap, score_terminal)
    if n >= 3 and int(got) in accepted and len(set(accepted)) > 1:
        o.label("score_reading=" + accepted[int(got)])
    o.check(int(got) in accepted, "score_columnwise", lambda: f"score(gap={gap}, terminal={score_terminal}): got {got}, want one of {sorted(accepted)}; cols={cols} seqs={seqs}")


# --------------------------------------------------------------------------
# (b) CIGAR
# --------------------------------------------------------------------------
_CIGAR_RE = re.compile(r"(\d+)([MIDNSHP=XB])")


def parse_cigar(text):
    """own parser: list of [symbol, count]; None if the text is not a CIGAR string."""
    out = []
    pos = 0
    for mt in _CIGAR_RE.finditer(text):
        if mt.start() != pos:
            return None
        out.append([mt.group(2), int(mt.group(1))])
        pos = mt.end()
    return out if pos == len(text) else None


def expand(ops):
    return "".join(sym * cnt for sym, cnt in ops)


def m_deletion_runs(pair):
    """reference index ranges [a, b) of maximal runs of columns with a segment gap."""
    runs = []
    cur = None
    for r, s in pair:
        if s == -1 and r != -1:
            if cur is None:
                cur = [r, r + 1]
            else:
                cur[1] = r + 1
        else:
            if cur is not None:
                runs.append(cur)
                cur = None
    if cur is not None:
        runs.append(cur)
    return runs


def resolve_introns(pair, spec):
    """spec: [[run_raw, a_raw, b_raw], ...] -> intron (start, stop) tuples inside deletion runs."""
    runs = m_deletion_runs(pair)
    out = []
    if not runs:
        return out
    for run_raw, a_raw, b_raw in spec:
        lo, hi = runs[run_raw % len(runs)]
        a = lo + a_raw % (hi - lo)
        b = a + 1 + b_raw % (hi - a)
        out.append((a, b))
    return out


def m_cigar(pair, ref, seg, introns, distinguish, hard, terminal):
    """Model of write_alignment_to_cigar on the two-column trace `pair`.

    Returns dict(expanded=ops one char per column incl. clipping, position, expected=columns
    the reader must reproduce, seg_slice=(a, b) slice of the segment handed to the reader,
    double_gap=True if a written column has a gap in reference AND segment - CIGAR has no
    operation for it; the model describes the pair alignment without these columns)."""
    seg_cols = [c for c, (r, s) in enumerate(pair) if s != -1]
    lo, hi = seg_cols[0], seg_cols[-1] + 1
    body = pair if terminal else pair[lo:hi]
    double_gap = any(r == -1 and s == -1 for r, s in body)
    body = [[r, s] for r, s in body if not (r == -1 and s == -1)]
    ops = []
    for r, s in body:
        if r == -1:
            ops.append("I")
        elif s == -1:
            ops.append("N" if any(a <= r < b for a, b in introns) else "D")
        elif distinguish:
            ops.append("=" if ref[r] == seg[s] else "X")
        else:
            ops.append("M")
    start_clip = pair[lo][1]
    end_clip = len(seg) - pair[hi - 1][1] - 1
    clip = "H" if hard else "S"
    ref_idx = [r for r, s in body if r != -1]
    shift = start_clip if hard else 0
    return {
        "expanded": clip * start_clip + "".join(ops) + clip * end_clip,
        "position": ref_idx[0] if ref_idx else 0,
        "expected": [[r, s if s == -1 else s - shift] for r, s in body],
        "seg_slice": (start_clip, len(seg) - end_clip) if hard else (0, len(seg)),
        "clips": (start_clip, end_clip),
        "double_gap": double_gap,
    }


def cigar_checks(o, ali, cols, seqs, ref_i, seg_i, opt):
    """write -> read round trip for one (reference, segment) pair and one option set."""
    from biotite.sequence import align
    from biotite.sequence.align import CigarOp

    pair = [[row[ref_i], row[seg_i]] for row in cols]
    ref, seg = seqs[ref_i], seqs[seg_i]
    introns = resolve_introns(pair, opt["introns"])
    model = m_cigar(pair, ref, seg, introns, opt["distinguish"], opt["hard"], opt["terminal"])
    kwargs = dict(
        reference_index=ref_i,
        segment_index=seg_i,
        introns=introns,
        distinguish_matches=opt["distinguish"],
        hard_clip=opt["hard"],
        include_terminal_gaps=opt["terminal"],
    )
    o.label(
        "hard_clip" if opt["hard"] else "soft_clip",
        "terminal_gaps_included" if opt["terminal"] else "terminal_gaps_dropped",
        "distinguish" if opt["distinguish"] else "plain_M",
    )
    if model["double_gap"]:
        # A column with gaps in reference and segment (row pair of an alignment of >= 3
        # sequences) has no CIGAR operation.  The writer's docstring does not say what happens:
        # rejecting the alignment (biotite: ValueError) and writing the pair alignment without
        # these columns are both accepted; in the second case everything below is checked
        # against the model without the double-gap columns.
        try:
            text = align.write_alignment_to_cigar(ali, as_string=True, **kwargs)
            tuples = align.write_alignment_to_cigar(ali, as_string=False, **kwargs)
        except ValueError:
            o.label("double_gap_column:rejected")
            return False
        o.label("double_gap_column:dropped")
    else:
        text = align.write_alignment_to_cigar(ali, as_string=True, **kwargs)
        tuples = align.write_alignment_to_cigar(ali, as_string=False, **kwargs)
    ctx = f"pair={pair} ref={ref} seg={seg} introns={introns} opt={opt}"
    if not o.check(isinstance(text, str), "cigar_string_and_tuples_agree", f"as_string=True returned {type(text).__name__}"):
        return False
    parsed = parse_cigar(text)
    if not o.check(parsed is not None, "cigar_ops_match_columns", f"not a CIGAR string: {text!r}; {ctx}"):
        return False
    tl = np.asarray(tuples)
    if o.check(tl.ndim == 2 and tl.shape[1] == 2, "cigar_string_and_tuples_agree", f"op tuples shape {tl.shape}; {ctx}"):
        from_tuples = [[CigarOp(int(op)).to_cigar_symbol(), int(cnt)] for op, cnt in tl.tolist()]
        o.check_eq(from_tuples, parsed, "cigar_string_and_tuples_agree", f"tuples vs string {text!r}; {ctx}")
    o.check_eq(expand(parsed), model["expanded"], "cigar_ops_match_columns", f"CIGAR {text!r}; {ctx}")
    o.check(all(cnt > 0 for _, cnt in parsed), "cigar_ops_match_columns", f"zero-length operation in {text!r}; {ctx}")
    if "N" in model["expanded"]:
        o.label("intron_op")
    if model["clips"] != (0, 0):
        o.label("clipped_segment")
    if "I" in model["expanded"] and "D" in model["expanded"].replace("N", "D"):
        o.label("ins_and_del")
    if model["expanded"].strip("SH").startswith(("D", "N")) or model["expanded"].strip("SH").endswith(("D", "N")):
        o.label("terminal_deletion_written")
    if model["position"] != 0:
        o.label("position>0")

    a, b = model["seg_slice"]
    ref_seq = ali.sequences[ref_i]
    seg_seq = ali.sequences[seg_i][a:b]
    want = np.array(model["expected"], dtype=int).reshape(-1, 2)
    for form, cigar in (("string", text), ("tuples", tuples)):
        back = align.read_alignment_from_cigar(cigar, model["position"], ref_seq, seg_seq)
        o.check_array_eq(back.trace, want, "cigar_roundtrip_trace", f"read(write(a)) from {form} {text!r} position={model['position']}; {ctx}")
        o.check(
            len(back.sequences) == 2 and back.sequences[0] == ref_seq and back.sequences[1] == seg_seq,
            "cigar_roundtrip_sequences",
            f"sequences after read ({form})",
        )
        if model["expected"]:
            bad = m_validity(np.asarray(back.trace).tolist(), 2, [len(ref_seq), len(seg_seq)]) if np.asarray(back.trace).ndim == 2 else [("trace_shape", "ndim")]
            for clause, msg in bad[:2]:
                o.fail(clause, f"parsed CIGAR {text!r}: {msg}")
    return True


# --------------------------------------------------------------------------
# (c) FASTA
# --------------------------------------------------------------------------
def fasta_checks(o, ali, cols, seqs, kind, opt):
    from biotite.sequence import NucleotideSequence, ProteinSequence
    from biotite.sequence.io import fasta

    n = len(seqs)
    firsts = m_firsts(cols, n)
    counts = [sum(1 for row in cols if row[i] != -1) for i in range(n)]
    names = [f"seq{i}" for i in range(n)]
    cpl = opt["chars_per_line"]
    ff = fasta.FastaFile(chars_per_line=cpl) if cpl is not None else fasta.FastaFile()
    fasta.set_alignment(ff, ali, names)
    gapmode = opt["gap_chars"]
    o.label(f"gapchars={gapmode}", f"chars_per_line={cpl}")
    if opt["via_text"] or gapmode != "dash":
        buf = io.StringIO()
        ff.write(buf)
        lines = buf.getvalue().split("\n")
        k = 0
        for li, line in enumerate(lines):
            if line.startswith(">"):
                continue
            chars = list(line)
            for ci, ch in enumerate(chars):
                if ch == "-":
                    if gapmode == "underscore":
                        chars[ci] = "_"
                    elif gapmode == "mixed" and k % 2 == 0:
                        chars[ci] = "_"
                    elif gapmode == "mixed_dot":
                        chars[ci] = "-_."[k % 3]
                    k += 1
            lines[li] = "".join(chars)
        ff = fasta.FastaFile.read(io.StringIO("\n".join(lines)))
    o.check_eq(list(ff.keys()), names, "fasta_roundtrip_sequences", "headers")
    seq_type = None
    if opt["explicit_type"]:
        seq_type = NucleotideSequence if kind == "nuc" else ProteinSequence
    kw = {}
    if gapmode == "mixed_dot":
        kw["additional_gap_chars"] = opt["dot_chars"] if isinstance(opt["dot_chars"], str) else tuple(opt["dot_chars"])
    back = fasta.get_alignment(ff, seq_type=seq_type, **kw)
    want_trace = np.array(m_shift_to_zero(cols, n), dtype=int).reshape(-1, n)
    o.check_array_eq(back.trace, want_trace, "fasta_roundtrip_trace", f"get_alignment(set_alignment(a)) cols={cols}")
    want_strs = [seqs[i][firsts[i] : firsts[i] + counts[i]] if firsts[i] is not None else "" for i in range(n)]
    o.check_eq([str(s) for s in back.sequences], want_strs, "fasta_roundtrip_sequences", "sequence strings")
    # the sequence type is guessed unless given; only compare objects when the guess is determined
    determined = kind == "nuc" or seq_type is not None or all(set(s) & PROT_ONLY for s in want_strs)
    if determined:
        want_objs = [_mk_seq(kind, s) for s in want_strs]
        o.check(list(back.sequences) == want_objs, "fasta_roundtrip_sequences", lambda: f"sequence objects {back.sequences!r} != {want_objs!r}")
    unclipped = all(firsts[i] == 0 and counts[i] == len(seqs[i]) for i in range(n))
    if unclipped and determined:
        # FASTA does not carry the score
        back.score = ali.score
        o.check(back == ali, "fasta_roundtrip_equal", "get_alignment(set_alignment(a)) != a")
    if want_trace.shape[0]:
        for clause, msg in m_validity(np.asarray(back.trace).tolist(), n, [len(s) for s in back.sequences])[:2]:
            o.fail(clause, f"parsed FASTA alignment: {msg}")


# --------------------------------------------------------------------------
# strategies
#
# Generating a case must stay cheap (on a loaded machine the budget is otherwise spent on
# generating instead of checking):
#  * every strategy object is built ONCE per strategy(tier) call, outside the composite
#    functions (building and validating strategies per draw costs more than drawing);
#  * symbols are bulk data: ONE integer seed is drawn from Hypothesis and kept in the case, the
#    strings are made from it with np.random.default_rng(seed) and stored in the case as well
#    (HARNESS.md: allowed, the case stays plain data and run() a pure function of the case).
# --------------------------------------------------------------------------
_ST_BOOL = st.booleans()
_ST_KIND = st.sampled_from(["nuc", "prot"])
_ST_SEED = st.integers(0, 2**32 - 1)
_ST_GAP = st.one_of(
    st.integers(-15, -1),
    st.tuples(st.integers(-15, -1), st.integers(-15, -1)).map(list),
)
_ST_CIGAR_OPT = st.fixed_dictionaries(
    {
        "introns": st.lists(st.tuples(st.integers(0, 20), st.integers(0, 20), st.integers(0, 20)).map(list), max_size=2),
        "distinguish": st.booleans(),
        "hard": st.booleans(),
        "terminal": st.booleans(),
    }
)
_ST_FASTA_OPT = st.fixed_dictionaries(
    {
        "via_text": st.booleans(),
        "chars_per_line": st.sampled_from([None, 80, 1, 3, 7]),
        "gap_chars": st.sampled_from(["dash", "underscore", "mixed", "mixed_dot"]),
        "dot_chars": st.sampled_from(["._", "_.", [".", "_"]]),
        "explicit_type": st.booleans(),
    }
)


def st_gap():
    return _ST_GAP


def st_cigar_opt():
    return _ST_CIGAR_OPT


def st_fasta_opt():
    return _ST_FASTA_OPT


def _bulk_strings(seed, pool, lengths):
    """strings of the given lengths over `pool`: a pure function of the seed, which is stored in
    the case next to the strings."""
    rng = np.random.default_rng(seed)
    out = []
    for ln in lengths:
        out.append("".join(pool[k] for k in rng.integers(0, len(pool), size=ln).tolist()))
    return out


_SHAPES = ["mixed", "mixed", "mixed", "all_match", "sparse", "never_all"]


def _mask_strategy(n, shape):
    full = (1 << n) - 1
    if shape == "all_match":
        return st.just(full)
    if shape == "never_all":
        # no column holds all sequences: sequences without overlap become likely
        return st.integers(1, full - 1)
    if shape == "mixed":
        return st.one_of(st.just(full), st.just(full), st.integers(1, full))
    return st.integers(1, full)


def st_trace_case(tier, nmin, nmax, with_clip=True, allow_absent=False):
    max_runs = 8 if tier == "quick" else 20
    max_run = 4 if tier == "quick" else 9
    st_n = st.integers(nmin, nmax)
    st_shape = st.sampled_from(_SHAPES)
    st_runs = {
        (n, shape): st.lists(st.tuples(_mask_strategy(n, shape), st.integers(1, max_run)).map(list), min_size=1, max_size=max_runs)
        for n in range(nmin, nmax + 1)
        for shape in set(_SHAPES)
    }
    st_clip = {n: st.lists(st.sampled_from([0, 0, 0, 1, 2, 5]), min_size=2 * n, max_size=2 * n) for n in range(nmin, nmax + 1)}
    st_pool = {kind: st.sampled_from(POOLS[kind]) for kind in POOLS}
    st_absent = st.integers(0, 3)
    st_at = st.integers(0, max_runs)
    st_uniform = st.sampled_from([False, False, False, False, True])

    @st.composite
    def gen(draw):
        kind = draw(_ST_KIND)
        n = draw(st_n)
        full = (1 << n) - 1
        shape = draw(st_shape)
        runs = draw(st_runs[n, shape])
        present = 0
        for mk, _ in runs:
            present |= mk
        if present != full and not (allow_absent and draw(st_absent) == 0):
            # every sequence takes part in the alignment with at least one symbol (unless a row
            # of gaps only is allowed: an empty or completely unaligned sequence)
            at = draw(st_at) % (len(runs) + 1)
            runs.insert(at, [full & ~present, 1])
        # half of the traces cover every sequence completely (no clipped ends at all)
        if with_clip and draw(_ST_BOOL):
            flat = draw(st_clip[n])
        else:
            flat = [0] * (2 * n)
        clip = [[flat[2 * i], flat[2 * i + 1]] for i in range(n)]
        pool = draw(st_pool[kind])
        seq_seed = draw(_ST_SEED)
        # "uniform": every row repeats one symbol (all aligned symbols match)
        uniform = draw(st_uniform)
        totals = [clip[i][0] + sum(ln for mk, ln in runs if (mk >> i) & 1) + clip[i][1] for i in range(n)]
        seqs = _bulk_strings(seq_seed, pool[:1] if uniform else pool, totals)
        return {"kind": kind, "n": n, "runs": runs, "clip": clip, "seq_seed": seq_seed, "seqs": seqs}

    return gen()


def st_conv(tier):
    inner = st_trace_case(tier, 2, 5, allow_absent=True)

    @st.composite
    def gen(draw):
        case = draw(inner)
        case["score_gap"] = draw(_ST_GAP)
        case["score_terminal"] = draw(_ST_BOOL)
        return case

    return gen()


def st_cigar(tier):
    inner = {n: st_trace_case(tier, n, n) for n in (2, 3)}
    st_n = st.sampled_from([2, 2, 3])
    st_perm = {n: st.permutations(list(range(n))) for n in (2, 3)}

    @st.composite
    def gen(draw):
        n_max = draw(st_n)
        case = draw(inner[n_max])
        pair = draw(st_perm[n_max])[:2]
        case["ref"] = pair[0]
        case["seg"] = pair[1]
        case["opt"] = draw(_ST_CIGAR_OPT)
        return case

    return gen()


def st_fasta(tier):
    inner = st_trace_case(tier, 2, 5, allow_absent=True)

    @st.composite
    def gen(draw):
        case = draw(inner)
        case["opt"] = draw(_ST_FASTA_OPT)
        return case

    return gen()


def _mutate(s, edits, letters):
    chars = list(s)
    for op, pos, letter_i in edits:
        letter = letters[letter_i % len(letters)]
        if op == "sub":
            chars[pos % len(chars)] = letter
        elif op == "ins":
            chars.insert(pos % (len(chars) + 1), letter)
        elif op == "del" and len(chars) > 1:
            del chars[pos % len(chars)]
    return "".join(chars)


def st_edits(max_size):
    return st.lists(
        st.tuples(st.sampled_from(["sub", "ins", "del", "ins", "del"]), st.integers(0, 200), st.integers(0, 40)),
        max_size=max_size,
    )


def st_produced(tier):
    maxlen = 20 if tier == "quick" else 60
    st_pool = {kind: st.sampled_from(POOLS[kind][1:]) for kind in POOLS}
    st_related = st.sampled_from([True, True, True, False])
    st_lens = st.tuples(st.integers(1, maxlen), st.integers(1, maxlen), st.integers(0, 5), st.integers(0, 5))
    st_uniform = st.sampled_from([False] * 7 + [True])
    st_ed = st_edits(6)
    st_method = st.sampled_from(["optimal"] * 5 + ["banded"] * 2 + ["local_gapped"] * 2 + ["local_ungapped", "ungapped"])
    st_empty = st.sampled_from([False] * 14 + [True])
    # small affine penalties + max_number > 1: many co-optimal alignments with different numbers of
    # columns (the branching traceback is where traces were seen to get corrupted)
    small_affine = st.tuples(st.integers(-6, -1), st.integers(-2, -1)).map(list)
    st_pgap = st.one_of(_ST_GAP, st.integers(-4, -1), small_affine, small_affine)
    st_rest = st.fixed_dictionaries(
        {
            "terminal": st.booleans(),
            "max_number": st.sampled_from([1, 1, 3, 3, 10, 10]),
            "band": st.tuples(st.integers(0, 200), st.integers(0, 6)).map(list),
            "seed": st.tuples(st.integers(0, 200), st.integers(0, 200)).map(list),
            "threshold": st.integers(1, 40),
            "direction": st.sampled_from(["both", "both", "upstream", "downstream"]),
            "swap_ref": st.booleans(),
            "cigar_opt": _ST_CIGAR_OPT,
            "fasta_opt": _ST_FASTA_OPT,
            "score_gap": _ST_GAP,
            "score_terminal": st.booleans(),
        }
    )

    @st.composite
    def gen(draw):
        kind = draw(_ST_KIND)
        pool = draw(st_pool[kind])
        related = draw(st_related)
        seq_seed = draw(_ST_SEED)
        lens = draw(st_lens)
        uniform = draw(st_uniform)
        s1, s2, pre, post = _bulk_strings(
            seq_seed, pool[:1] if uniform else pool, [max(lens[0], 4) if related else lens[0], lens[1], lens[2], lens[3]]
        )
        if related:
            s2 = _mutate(s1, draw(st_ed), pool)
        if draw(_ST_BOOL):
            # embed: makes local / semi-global alignments with clipped ends likely
            s2 = pre + s2 + post
        if draw(_ST_BOOL):
            s1, s2 = s2, s1
        method = draw(st_method)
        local = draw(_ST_BOOL)
        if draw(st_empty):
            # an empty sequence: the global alignment consists of gaps in that row only
            s1, method, local, related = "", "optimal", False, False
            if draw(_ST_BOOL):
                s1, s2 = s2, s1
        gap = draw(st_pgap)
        if (not s1 or not s2) and not isinstance(gap, int):
            # align_optimal() itself fails with IndexError for an empty sequence and an affine
            # penalty (pairwise.pyx, property C08); producing the alignment is not C11's subject
            gap = gap[0]
        case = {
            "kind": kind,
            "seq_seed": seq_seed,
            "s1": s1,
            "s2": s2,
            "related": related,
            "method": method,
            "gap": gap,
            "local": local,
        }
        case.update(draw(st_rest))
        return case

    return gen()


def st_cigar_parse(tier):
    max_ops = 8 if tier == "quick" else 25
    # counts of several digits must be parsed, too; 'P' (padding: consumes neither sequence) is
    # legal SAM that the reader may refuse; an empty body (only clips, or no operation at all)
    count = st.one_of(st.integers(1, 6), st.integers(1, 6), st.integers(1, 6), st.sampled_from([10, 12, 100]))
    syms = st.sampled_from(["M", "M", "I", "D", "N", "=", "X"] * 12 + ["P"])
    op = st.tuples(syms, count).map(list)
    st_body = {m: st.lists(op, min_size=m, max_size=max_ops) for m in (0, 1)}
    st_min = st.sampled_from([0] + [1] * 24)
    st_clips = st.lists(st.sampled_from([0, 0, 1, 4]), min_size=4, max_size=4)
    st_rest = st.fixed_dictionaries(
        {
            "position": st.sampled_from([0, 0, 1, 7, 100]),
            "ref_extra": st.integers(0, 3),
            "as_tuples": st.booleans(),
        }
    )

    @st.composite
    def gen(draw):
        body = draw(st_body[draw(st_min)])
        ops = []
        h1, s1, s2, h2 = draw(st_clips)
        if h1:
            ops.append(["H", h1])
        if s1:
            ops.append(["S", s1])
        ops += body
        if s2:
            ops.append(["S", s2])
        if h2:
            ops.append(["H", h2])
        case = {"kind": draw(_ST_KIND), "ops": ops}
        case.update(draw(st_rest))
        return case

    return gen()


def _identical_homopolymers(strs):
    """two equal sequences made of one repeated symbol (input class of C11-F1)."""
    seen = set()
    for s in strs:
        if len(set(s)) == 1:
            if s in seen:
                return True
            seen.add(s)
    return False


def st_msa(tier):
    maxlen = 25 if tier == "quick" else 60
    maxn = 7 if tier == "quick" else 10
    st_pool = {kind: st.sampled_from(POOLS[kind][1:] * 6 + POOLS[kind][:1]) for kind in POOLS}
    st_n = st.integers(2, maxn)
    st_relation = st.sampled_from(["identical", "mutated", "mutated", "mutated", "unrelated", "mixed"])
    st_lengths = {n: st.lists(st.integers(1, maxlen), min_size=n + 1, max_size=n + 1) for n in range(2, maxn + 1)}
    # homopolymer sets are the input class of the open finding C11-F1 (narrowed): kept rare
    st_uniform = st.sampled_from([False] * 24 + [True])
    st_ed = st_edits(5)
    st_dist = {
        n: st.one_of(st.none(), st.none(), st.lists(st.integers(1, 60), min_size=n * (n - 1) // 2, max_size=n * (n - 1) // 2))
        for n in range(2, maxn + 1)
    }
    st_tree = {
        n: st.one_of(
            st.none(),
            st.none(),
            st.fixed_dictionaries(
                {
                    "perm": st.permutations(list(range(n))),
                    "merges": st.lists(st.tuples(st.integers(0, 50), st.sampled_from([2, 2, 2, 3, 4])).map(list), max_size=n),
                }
            ),
        )
        for n in range(2, maxn + 1)
    }

    @st.composite
    def gen(draw):
        kind = draw(_ST_KIND)
        pool = draw(st_pool[kind])
        n = draw(st_n)
        relation = draw(st_relation)
        seq_seed = draw(_ST_SEED)
        lengths = draw(st_lengths[n])
        uniform = draw(st_uniform)
        fresh = _bulk_strings(seq_seed, pool[:1] if uniform else pool, lengths)
        if relation == "identical":
            seqs = [fresh[0]] * n
        elif relation == "unrelated":
            seqs = fresh[:n]
        else:
            base = fresh[n]
            seqs = []
            for i in range(n):
                if relation == "mixed" and i % 3 == 2:
                    seqs.append(fresh[i])
                elif relation == "mixed" and i % 3 == 1 and seqs:
                    seqs.append(seqs[0])
                else:
                    seqs.append(_mutate(base, draw(st_ed), pool)[: maxlen + 5])
        k = n * (n - 1) // 2
        case = {
            "kind": kind,
            "seq_seed": seq_seed,
            "seqs": seqs,
            "relation": relation,
            "gap": draw(_ST_GAP),
            "terminal": draw(_ST_BOOL),
            "distances": draw(st_dist[n]),
            "tree": draw(st_tree[n]),
            "narrowed": [],
            # equal inputs are one Sequence object given several times
            "share_objects": draw(_ST_BOOL),
        }
        if findings.is_open(F1) and case["distances"] is None and _identical_homopolymers(seqs):
            # open finding C11-F1: ZeroDivisionError while inferring distances; the class is
            # narrowed out by supplying distances (everything else of the case stays)
            case["distances"] = [10] * k
            case["narrowed"] = [F1]
        return case

    return gen()


# --------------------------------------------------------------------------
# run functions
# --------------------------------------------------------------------------
def run_conv(case):
    o = Outcome()
    n = case["n"]
    cols = cols_from_runs(n, case["runs"], [c[0] for c in case["clip"]])
    ali = _mk_alignment(case["kind"], case["seqs"], cols)
    o.mark_nontrivial(label_trace(o, cols, n))
    conv_checks(o, ali, cols, case["seqs"], case["kind"], case["score_gap"], case["score_terminal"])
    index_checks(o, ali, cols, case["seqs"], n)
    # the input alignment must not be changed by any helper
    o.check_array_eq(ali.trace, np.array(cols, dtype=int).reshape(-1, n), "helpers_do_not_mutate", "trace after the helpers")
    return o


def index_checks(o, ali, cols, seqs, n):
    """Alignment.__getitem__: column ranges and sequence subsets behave like indexing the
    trace matrix; the positions derived from the case itself (deterministic)."""
    from biotite.sequence.align import Alignment

    L = len(cols)
    a = (sum(len(s) for s in seqs) + L) % (L + 1)
    b = (a + 1 + (L * 7 + n) % (L + 1)) % (L + 2)
    lo, hi = min(a, b), max(a, b)
    full = np.array(cols, dtype=int).reshape(-1, n)
    sub = ali[lo:hi]
    if o.check(isinstance(sub, Alignment), "alignment_indexing", f"ali[{lo}:{hi}] is a {type(sub).__name__}"):
        o.check_array_eq(sub.trace, full[lo:hi], "alignment_indexing", f"trace of ali[{lo}:{hi}]")
        o.check_eq([str(q) for q in sub.sequences], list(seqs), "alignment_indexing", f"sequences of ali[{lo}:{hi}]")
        if np.asarray(sub.trace).ndim == 2:
            # a column range of a valid trace is a valid trace (judged on the returned trace)
            for clause, msg in m_validity(np.asarray(sub.trace).tolist(), n, [len(q) for q in seqs])[:2]:
                o.fail(clause, f"ali[{lo}:{hi}]: {msg}")
    pick = [i for i in range(n) if (i + L) % 2 == 0] or [0]
    if len(pick) >= 1:
        for form, index in (("list", list(pick)), ("array", np.array(pick)), ("mask", np.array([i in pick for i in range(n)]))):
            sub2 = ali[:, index]
            o.check_array_eq(sub2.trace, full[:, pick], "alignment_indexing", f"trace of ali[:, {form} {pick}]")
            o.check_eq([str(q) for q in sub2.sequences], [seqs[i] for i in pick], "alignment_indexing", f"sequences of ali[:, {form} {pick}]")
        sub3 = ali[lo:hi, list(pick)]
        o.check_array_eq(sub3.trace, full[lo:hi][:, pick], "alignment_indexing", f"trace of ali[{lo}:{hi}, {pick}]")
    # slices on the sequence axis (the documented form ali[1:4, 0:1])
    sa = (L + len(seqs[0])) % n
    sb = sa + 1 + (L + n) % (n - sa)
    for form, rows, rsl in ((f"{lo}:{hi}", slice(lo, hi), full[lo:hi]), (":", slice(None), full)):
        sub4 = ali[rows, sa:sb]
        o.check_array_eq(sub4.trace, rsl[:, sa:sb], "alignment_indexing", f"trace of ali[{form}, {sa}:{sb}]")
        o.check_eq([str(q) for q in sub4.sequences], list(seqs[sa:sb]), "alignment_indexing", f"sequences of ali[{form}, {sa}:{sb}]")
    o.label("seq_slice_all" if (sa, sb) == (0, n) else "seq_slice_part")
    o.check_eq(len(ali), L, "alignment_indexing", "len(alignment)")
    same = Alignment(list(ali.sequences), ali.trace.copy(), ali.score)
    o.check(ali == same and not (ali != same), "alignment_indexing", "alignment != an equal alignment")
    if L > 0:
        other = Alignment(list(ali.sequences), ali.trace[:-1].copy(), ali.score)
        o.check(not (ali == other), "alignment_indexing", "alignment == an alignment with one column less")


def run_cigar(case):
    o = Outcome()
    n = case["n"]
    cols = cols_from_runs(n, case["runs"], [c[0] for c in case["clip"]])
    ali = _mk_alignment(case["kind"], case["seqs"], cols)
    pair = [[row[case["ref"]], row[case["seg"]]] for row in cols]
    live = [row for row in pair if row != [-1, -1]]
    nontrivial = label_trace(o, live, 2)
    o.label(f"alignment_of_{n}", "ref_before_seg" if case["ref"] < case["seg"] else "seg_before_ref")
    if cigar_checks(o, ali, cols, case["seqs"], case["ref"], case["seg"], case["opt"]):
        o.mark_nontrivial(nontrivial)
    o.check_array_eq(ali.trace, np.array(cols, dtype=int).reshape(-1, n), "helpers_do_not_mutate", "trace after CIGAR writing")
    return o


def run_fasta(case):
    o = Outcome()
    n = case["n"]
    cols = cols_from_runs(n, case["runs"], [c[0] for c in case["clip"]])
    ali = _mk_alignment(case["kind"], case["seqs"], cols)
    o.mark_nontrivial(label_trace(o, cols, n))
    fasta_checks(o, ali, cols, case["seqs"], case["kind"], case["opt"])
    return o


def run_produced(case):
    from biotite.sequence import align

    o = Outcome()
    kind = case["kind"]
    s1, s2 = case["s1"], case["s2"]
    q1, q2 = _mk_seq(kind, s1), _mk_seq(kind, s2)
    matrix = _matrix(kind)
    gap = _gap(case["gap"])
    method = case["method"]
    if method == "ungapped":
        # align_ungapped() demands equal lengths: the common prefix length of both strings is used
        k = min(len(s1), len(s2))
        s1, s2 = s1[:k], s2[:k]
        q1, q2 = _mk_seq(kind, s1), _mk_seq(kind, s2)
    o.label(method, "related" if case["related"] else "unrelated")
    empty_input = not s1 or not s2
    if empty_input:
        o.label("empty_input_sequence")
    try:
        if method == "optimal":
            o.label("local" if case["local"] else ("global" if case["terminal"] else "semiglobal"))
            alis = align.align_optimal(
                q1, q2, matrix, gap_penalty=gap, terminal_penalty=case["terminal"], local=case["local"], max_number=case["max_number"]
            )
        elif method == "banded":
            o.label("banded_local" if case["local"] else "banded_semiglobal")
            diag = -(len(s1) - 1) + case["band"][0] % (len(s1) + len(s2) - 1)
            w = case["band"][1]
            alis = align.align_banded(q1, q2, matrix, (diag - w, diag + w), gap_penalty=gap, local=case["local"], max_number=case["max_number"])
        elif method == "local_gapped":
            seed = (case["seed"][0] % len(s1), case["seed"][1] % len(s2))
            o.label("direction=" + case["direction"])
            alis = align.align_local_gapped(
                q1, q2, matrix, seed, case["threshold"], gap_penalty=gap, max_number=case["max_number"], direction=case["direction"]
            )
        elif method == "local_ungapped":
            seed = (case["seed"][0] % len(s1), case["seed"][1] % len(s2))
            o.label("direction=" + case["direction"])
            alis = [align.align_local_ungapped(q1, q2, matrix, seed, case["threshold"], direction=case["direction"])]
        else:
            alis = [align.align_ungapped(q1, q2, matrix)]
    except Exception as e:  # noqa: BLE001
        if not empty_input:
            raise
        # Whether an aligner accepts an empty sequence is not C11's subject (C08): if it refuses,
        # there is no alignment to convert.  (As long as it returns one, it is checked below.)
        o.label(f"empty_input_rejected_by_producer:{type(e).__name__}")
        return o
    if len(alis) == 0:
        # "every alignment the library produces": none produced (whether that is right is C08/C09)
        o.label("no_alignment")
        return o
    if len(alis) > 1:
        o.label("several_alignments")
    seqs = [s1, s2]
    nontrivial = False
    for k, ali in enumerate(alis[:4]):
        o.check(
            len(ali.sequences) == 2 and str(ali.sequences[0]) == s1 and str(ali.sequences[1]) == s2,
            "produced_sequences",
            f"alignment {k} holds other sequences",
        )
        cols = check_valid_trace(o, ali, f"{method} alignment {k}")
        if cols is None:
            continue
        if not cols:
            o.label("empty_alignment")
            continue
        if k == 0:
            label_trace(o, cols, 2)
        t, i_ = m_gap_classes(cols, 2)
        f_ = m_firsts(cols, 2)
        l_ = m_firsts(cols[::-1], 2)
        clipped = any(f_[i] not in (None, 0) or l_[i] not in (None, len(seqs[i]) - 1) for i in range(2))
        nontrivial = nontrivial or (i_ and (t or clipped))
        conv_checks(o, ali, cols, seqs, kind, case["score_gap"], case["score_terminal"])
        ref_i, seg_i = (1, 0) if case["swap_ref"] else (0, 1)
        if any(row[seg_i] != -1 for row in cols):
            cigar_checks(o, ali, cols, seqs, ref_i, seg_i, case["cigar_opt"])
        else:
            o.label("segment_without_aligned_base")
        fasta_checks(o, ali, cols, seqs, kind, case["fasta_opt"])
    o.mark_nontrivial(nontrivial)
    return o


def run_cigar_parse(case):
    from biotite.sequence import align
    from biotite.sequence.align import CigarOp

    o = Outcome()
    ops = case["ops"]
    pos = case["position"]
    r, s = pos, 0
    want = []
    for sym, cnt in ops:
        for _ in range(cnt):
            if sym in "M=X":
                want.append([r, s])
                r += 1
                s += 1
            elif sym == "I":
                want.append([-1, s])
                s += 1
            elif sym in "DN":
                want.append([r, -1])
                r += 1
            elif sym == "S":
                s += 1
    letters = LETTERS[case["kind"]]
    ref = "".join(letters[(i * 7) % len(letters)] for i in range(r + case["ref_extra"]))
    seg = "".join(letters[(i * 3) % len(letters)] for i in range(max(s, 1)))
    ref_seq, seg_seq = _mk_seq(case["kind"], ref), _mk_seq(case["kind"], seg)
    text = "".join(f"{cnt}{sym}" for sym, cnt in ops)
    if case["as_tuples"]:
        cigar = [(int(CigarOp.from_cigar_symbol(sym)), cnt) for sym, cnt in ops]
        o.label("tuples")
    else:
        cigar = text
        o.label("string")
    if not ops or any(sym == "P" for sym, _ in ops):
        # not covered by the docstring of the reader: a CIGAR without any operation, and the
        # padding operation (legal SAM, consumes neither sequence; biotite: "not implemented").
        # Refusing with an error is accepted; if an alignment is returned it is judged like any
        # other one (no operation -> no column, 'P' -> no column).
        what = "empty_cigar" if not ops else "padding_op"
        try:
            ali = align.read_alignment_from_cigar(cigar, pos, ref_seq, seg_seq)
        except (ValueError, NotImplementedError):
            o.label(what + ":rejected")
            return o
        o.label(what + ":read")
    else:
        ali = align.read_alignment_from_cigar(cigar, pos, ref_seq, seg_seq)
    cols = check_valid_trace(o, ali, f"read_alignment_from_cigar({text!r}, {pos})")
    o.check_array_eq(ali.trace, np.array(want, dtype=int).reshape(-1, 2), "cigar_read_columns", f"trace of {text!r} at {pos}")
    # the caller owns the returned alignment: editing its trace in place must not influence a
    # later parse of the same CIGAR (at the same or another position)
    if len(want) > 0:
        probe = align.read_alignment_from_cigar(cigar, 0, ref_seq, seg_seq)
        try:
            probe.trace[...] = -7
        except ValueError:
            # a read-only trace cannot be corrupted by the caller either
            o.label("trace_read_only")
        again0 = align.read_alignment_from_cigar(cigar, 0, ref_seq, seg_seq)
        want0 = np.array(want, dtype=int).reshape(-1, 2)
        want0[want0[:, 0] != -1, 0] -= pos
        o.check_array_eq(again0.trace, want0, "cigar_read_columns", f"second parse of {text!r} at 0 after the first result was edited in place")
        again = align.read_alignment_from_cigar(cigar, pos, ref_seq, seg_seq)
        o.check_array_eq(again.trace, np.array(want, dtype=int).reshape(-1, 2), "cigar_read_columns", f"repeated parse of {text!r} at {pos}")
    syms = {sym for sym, _ in ops}
    for sym in sorted(syms):
        o.label("op" + sym)
    if cols:
        t, i_ = m_gap_classes(cols, 2)
        o.mark_nontrivial(t and i_)
        # writing the parsed alignment again describes the same columns
        if any(c[1] != -1 for c in cols):
            opt = {"introns": [], "distinguish": False, "hard": False, "terminal": True}
            cigar_checks(o, ali, cols, [ref, seg], 0, 1, opt)
    return o


def _build_tree(n, spec):
    from biotite.sequence.phylo import Tree, TreeNode

    nodes = [TreeNode(index=i) for i in spec["perm"]]
    merges = list(spec["merges"])
    nary = False
    while len(nodes) > 1:
        i_raw, arity = merges.pop(0) if merges else (0, 2)
        a = min(arity, len(nodes))
        if a > 2:
            nary = True
        i = i_raw % (len(nodes) - a + 1)
        nodes[i : i + a] = [TreeNode(nodes[i : i + a], [1.0] * a)]
    return Tree(nodes[0]), nary


def _leaf_indices(node):
    if node.is_leaf():
        return [node.index]
    out = []
    for child in node.children:
        out += _leaf_indices(child)
    return out


def run_msa(case):
    from biotite.sequence import align

    o = Outcome()
    for fid in case.get("narrowed", []):
        o.exclude(fid)
    kind = case["kind"]
    strs = case["seqs"]
    n = len(strs)
    seqs = [_mk_seq(kind, s) for s in strs]
    if case.get("share_objects") and len(set(strs)) < n:
        first = {}
        seqs = [first.setdefault(s, q) for s, q in zip(strs, seqs)]
        o.label("one_object_given_several_times")
    gap = _gap(case["gap"])
    distances = None
    if case["distances"] is not None:
        distances = np.zeros((n, n))
        k = 0
        for i in range(n):
            for j in range(i + 1, n):
                distances[i, j] = distances[j, i] = case["distances"][k] / 10.0
                k += 1
    tree = None
    if case["tree"] is not None:
        tree, nary = _build_tree(n, case["tree"])
        o.label("tree_nary" if nary else "tree_binary")
    else:
        o.label("tree_default")
    o.label(
        case["relation"],
        "distances_given" if distances is not None else "distances_inferred",
        "affine" if isinstance(gap, tuple) else "linear",
        "terminal_penalty" if case["terminal"] else "no_terminal_penalty",
        f"n={n}" if n < 5 else "n>=5",
    )
    try:
        ali, order, out_tree, dist = align.align_multiple(
            seqs, _matrix(kind), gap_penalty=gap, terminal_penalty=case["terminal"], distances=distances, guide_tree=tree
        )
    except ValueError:
        if distances is None and len(set(strs)) > 1:
            # documented: the distance of (too) unrelated sequences cannot be calculated.  Only
            # inputs that are all equal are certainly not "extremely unrelated" (their alignment
            # has the maximum score, D = 0): there a ValueError is not the documented one.
            o.label("ValueError_distances_not_computable")
            return o
        raise
    o.label("aligned")
    # the inputs are not changed
    o.check_eq([str(q) for q in seqs], strs, "msa_inputs_unmodified", "input sequences after align_multiple")
    # one row per input in input order
    if not o.check(len(ali.sequences) == n, "msa_one_row_per_input", f"{len(ali.sequences)} rows for {n} inputs"):
        return o
    o.check_eq([str(q) for q in ali.sequences], strs, "msa_one_row_per_input", "alignment.sequences")
    o.check(all(a == b for a, b in zip(ali.sequences, seqs)), "msa_one_row_per_input", "alignment.sequences != inputs (alphabet or code)")
    cols = check_valid_trace(o, ali, "align_multiple")
    if cols is not None:
        gapped = ali.get_gapped_sequences()
        o.check_eq([g.replace("-", "") for g in gapped], strs, "msa_gap_stripped_rows_equal_inputs", f"gapped rows {gapped}")
        # every symbol of every input is placed (global alignment)
        for i in range(n):
            used = [row[i] for row in cols if row[i] != -1]
            o.check(used == list(range(len(strs[i]))), "msa_gap_stripped_rows_equal_inputs", lambda: f"row {i} uses indices {used} of a sequence of length {len(strs[i])}")
        label_trace(o, cols, n)
        conv_checks(o, ali, cols, strs, kind, case["gap"], case["terminal"])
        # the MSA through FASTA and (first vs. last row) through CIGAR
        fasta_checks(o, ali, cols, strs, kind, {"via_text": True, "chars_per_line": None, "gap_chars": "mixed", "dot_chars": "._", "explicit_type": kind == "prot"})
        opt = {"introns": [[0, 0, 50]], "distinguish": True, "hard": False, "terminal": bool(case["terminal"])}
        cigar_checks(o, ali, cols, strs, 0, n - 1, opt)
    # order is a permutation
    order_l = np.asarray(order).tolist()
    o.check(sorted(order_l) == list(range(n)), "msa_order_is_permutation", f"order {order_l}")
    # guide tree contains every sequence exactly once
    leaves = _leaf_indices(out_tree.root)
    o.check(sorted(leaves) == list(range(n)), "msa_tree_leaves_once", f"tree leaves {leaves}")
    o.mark_nontrivial(n >= 3 and len({len(s) for s in strs}) > 1)
    return o


# --------------------------------------------------------------------------
# exhaustive small scope for the CIGAR writer/reader
# --------------------------------------------------------------------------
def cigar_small_cases(tier):
    import itertools

    maxlen = 4 if tier == "quick" else 6
    for length in range(1, maxlen + 1):
        for pattern in itertools.product("MID", repeat=length):
            if all(p == "D" for p in pattern):
                continue  # the segment needs one aligned base
            for ref_start, seg_start, seg_end in itertools.product((0, 2), (0, 1), (0, 2)):
                for distinguish, hard, terminal, intron in itertools.product((False, True), repeat=4):
                    if intron and "D" not in pattern:
                        continue
                    yield {
                        "pattern": "".join(pattern),
                        "ref_start": ref_start,
                        "seg_start": seg_start,
                        "seg_end": seg_end,
                        "opt": {
                            "introns": [[0, 0, 0]] if intron else [],
                            "distinguish": distinguish,
                            "hard": hard,
                            "terminal": terminal,
                        },
                    }


def run_cigar_small(case):
    o = Outcome()
    r, s = case["ref_start"], case["seg_start"]
    cols = []
    for p in case["pattern"]:
        if p == "M":
            cols.append([r, s])
            r += 1
            s += 1
        elif p == "I":
            cols.append([-1, s])
            s += 1
        else:
            cols.append([r, -1])
            r += 1
    ref = ("ACGT" * 4)[: r + 1]
    seg = ("AGGT" * 4)[: s + case["seg_end"]]
    ali = _mk_alignment("nuc", [ref, seg], cols)
    t, i_ = m_gap_classes(cols, 2)
    if cigar_checks(o, ali, cols, [ref, seg], 0, 1, case["opt"]):
        o.mark_nontrivial(t and i_)
    return o


# --------------------------------------------------------------------------
# --------------------------------------------------------------------------
# code / symbol matrices for alphabets beyond 127 and 255 symbols (code dtype widths)
# --------------------------------------------------------------------------
def st_wide(tier):
    sizes = [127, 128, 129, 200, 255, 256, 257, 300, 70000]
    st_size = st.sampled_from(sizes)
    st_n = st.integers(2, 3)
    st_seq = {
        size: st.lists(
            st.sampled_from([size - 1, size - 2, max(0, size - 129), 127 % size, 128 % size, 255 % size, 0, 1]), min_size=1, max_size=6
        )
        for size in sizes
    }
    st_runs = {n: st.lists(st.tuples(st.integers(1, 2**n - 1), st.integers(1, 2)).map(list), min_size=1, max_size=6) for n in (2, 3)}

    @st.composite
    def gen(draw):
        size = draw(st_size)
        n = draw(st_n)
        seqs = [draw(st_seq[size]) for _ in range(n)]
        runs = draw(st_runs[n])
        return {"size": size, "seqs": seqs, "runs": runs}

    return gen()


def run_wide(case):
    import biotite.sequence as bseq
    import biotite.sequence.align as align

    o = Outcome()
    size = case["size"]
    alph = bseq.Alphabet(range(size))
    n = len(case["seqs"])
    # columns from the runs, cut where a sequence is used up
    idx = [0] * n
    cols = []
    for mask, length in case["runs"]:
        for _ in range(length):
            row = []
            for i in range(n):
                if (mask >> i) & 1 and idx[i] < len(case["seqs"][i]):
                    row.append(idx[i])
                    idx[i] += 1
                else:
                    row.append(-1)
            if any(x != -1 for x in row):
                cols.append(row)
    if not cols:
        o.invalid = True
        return o
    seqs = []
    for codes in case["seqs"]:
        sq = bseq.GeneralSequence(alph)
        sq.code = np.array(codes, dtype=np.int64)
        seqs.append(sq)
    ali = align.Alignment(seqs, np.array(cols, dtype=np.int64), None)
    want_codes = [[-1 if row[i] == -1 else case["seqs"][i][row[i]] for row in cols] for i in range(n)]
    o.label(f"alphabet={size}", "code>=128" if any(c >= 128 for r in want_codes for c in r) else "code<128")
    got = align.get_codes(ali)
    o.check_eq(np.asarray(got).tolist(), want_codes, "codes_columnwise", f"get_codes over an alphabet of {size} symbols")
    sym = align.get_symbols(ali)
    want_sym = [[None if c == -1 else c for c in r] for r in want_codes]
    o.check_eq([list(r) for r in sym], want_sym, "symbols_columnwise", f"get_symbols over an alphabet of {size} symbols")
    # identity = matches / length, recomputed per column (mode 'all': all columns)
    for i in range(n):
        for j in range(i + 1, n):
            both = [(a, b) for a, b in zip(want_codes[i], want_codes[j])]
            matches = sum(1 for a, b in both if a != -1 and a == b)
            pair = align.Alignment([seqs[i], seqs[j]], np.array([[r[i], r[j]] for r in cols if not (r[i] == -1 and r[j] == -1)], dtype=np.int64).reshape(-1, 2), None)
            if len(pair.trace) == 0:
                continue
            got_id = align.get_sequence_identity(pair, mode="all")
            o.check(abs(got_id - matches / len(pair.trace)) < 1e-12, "identity_columnwise", lambda: f"identity of rows {i},{j}: {got_id} != {matches}/{len(pair.trace)}")
    o.mark_nontrivial(any(c >= 128 for r in want_codes for c in r))
    return o


SUBS = [
    Sub(
        "wide_alphabets",
        st_wide,
        run_wide,
        quick=1200,
        thorough=40000,
        rule="alignment over an alphabet of 127..70000 symbols containing a code >= 128",
        clauses="get_codes / get_symbols / identity equal a column loop for every code width",
    ),
    Sub(
        "conversions",
        st_conv,
        run_conv,
        quick=5000,
        thorough=150000,
        rule="trace with >= 1 internal gap and >= 1 terminal gap",
        clauses="gapped strings and trace_from_strings back; get_codes/get_symbols; find/remove terminal gaps; "
        "remove_gaps; identity (3 modes) and pairwise identity; score - all equal to a column loop (rows without "
        "overlap: any empty slice / error / NaN accepted; score of >= 3 rows: gaps per row or per row pair); "
        "Alignment indexing by column slice, row list / array / mask / slice",
    ),
    Sub(
        "cigar",
        st_cigar,
        run_cigar,
        quick=5000,
        thorough=150000,
        rule="pair trace with >= 1 internal gap and >= 1 terminal gap that CIGAR can express",
        clauses="read(write(a)) reproduces the trace CIGAR can carry under every option combination; "
        "op tuples and string agree; operations equal the per-column classification; a column with gaps in both rows "
        "is either refused (ValueError) or left out",
    ),
    Sub(
        "fasta",
        st_fasta,
        run_fasta,
        quick=3000,
        thorough=90000,
        rule="trace with >= 1 internal gap and >= 1 terminal gap",
        clauses="get_alignment(set_alignment(a)) recovers trace and sequences, with '-', '_' and extra gap characters",
    ),
    Sub(
        "produced",
        st_produced,
        run_produced,
        quick=2800,
        thorough=60000,
        rule="produced alignment with >= 1 internal gap and (>= 1 terminal gap or clipped ends)",
        clauses="trace validity of align_optimal / align_banded / align_local_gapped / align_local_ungapped / align_ungapped "
        "results, and all conversions on them (a producer that refuses an empty sequence or returns no alignment is not judged)",
    ),
    Sub(
        "cigar_parse",
        st_cigar_parse,
        run_cigar_parse,
        quick=2400,
        thorough=60000,
        rule="parsed alignment with >= 1 internal and >= 1 terminal gap",
        clauses="trace validity and column content of read_alignment_from_cigar on arbitrary CIGAR strings / op tuples "
        "(counts of 1..3 digits; 'P' and the empty CIGAR may be refused)",
    ),
    Sub(
        "msa",
        st_msa,
        run_msa,
        quick=1280,
        thorough=30000,
        rule=">= 3 sequences of different lengths, aligned without ValueError",
        clauses="align_multiple: one row per input in input order, gap-stripped rows == inputs, valid trace, "
        "order is a permutation, tree leaves are 0..n-1 once; documented ValueError accepted when distances are inferred "
        "and the inputs are not all equal",
    ),
]

ENUMS = [
    Enum(
        "cigar_small",
        cigar_small_cases,
        run_cigar_small,
        rule="pair trace with >= 1 internal and >= 1 terminal gap",
        clauses="CIGAR round trip for every M/I/D column pattern up to length 4 (quick) / 6 (thorough) x reference offset x "
        "segment clipping x distinguish_matches x hard_clip x include_terminal_gaps x intron",
        exhaustive=True,
    ),
]


def _f1_zero_division(sub, case, clause, message):
    return (
        sub == "msa"
        and clause == "unexpected_exception"
        and "ZeroDivisionError" in message
        and case.get("distances") is None
        and _identical_homopolymers(case.get("seqs", []))
    )


FINDINGS = {"msa_zero_division_identical_homopolymers": _f1_zero_division}
