"""
C04  A structure survives a CIF / BinaryCIF / compressed BinaryCIF write-read cycle.

A case is plain data: a list of residues (chain, res_id, ins_code, name, hetero,
atoms), the number of models (0 = AtomArray), a seed + mode (+ explicit special
values) for the float32 coordinates, optional per-atom fields, extra string
fields, cell parameters and a bond list ``[i, j, type]``.

Oracle (independent of biotite): the *input* itself.  Annotations must come
back equal, coordinates bit-identical (after ``compress()``: within the stated
relative tolerance), optional fields equal, the box equivalent (same cell
lengths/angles; equal to the unit-cell round trip), bonds as a set of typed
pairs.  The bond oracle follows the documented format semantics:

* intra-residue bonds are stored per *residue name* (``chem_comp_bond``), so
  the generator makes them consistent per residue name (checked in ``run``);
  if no ``chem_comp_bond`` category is written (no intra bond, or
  ``include_bonds=False`` on writing) the documented fall-back to the Chemical
  Component Dictionary applies and the expected intra-residue bonds are
  computed from ``fixtures.make_ccd.BY_ID`` (not from biotite);
* ``connect_via_residue_names`` (documented) adds the C-N / O3'-P link between
  adjacent linking residues of one chain; where the input lacks such a link
  it is expected additionally if the residue ids are consecutive (label
  ``link_added_by_reader``) and accepted, not demanded, otherwise (same id
  with another insertion code, descending ids: ``link_optional_...``).

Where the documentation leaves several outcomes open the check accepts each of
them, says in a label which one occurred and still compares the result with
the reference of that reading (``BondSpec``, ``occupancy_readings``,
``read_structure``): CCD fall-back or "no bonds" for a structure without
intra-residue bonds written with ``include_bonds=True``; sum / mean / max of
the occupancies of an alternate-location id; the refusal to assign
``struct_conn`` rows when two equal residues share chain and residue id
(``set_structure`` Notes); any exception type for a non-existent model or an
unknown ``altloc`` option; any placeholder for "no alternate location".

Model selection and alt-loc policies are compared with index arithmetic / a
small reference filter written here.
"""

import io
import math
import warnings

import numpy as np
from hypothesis import strategies as st

from fixtures import make_ccd
from vlib import Enum, Outcome, Sub, findings

PROPERTY = "C04"
RULE = (
    "structures built from residues (names known and unknown to the synthetic CCD, awkward chain/atom names, "
    "negative/large residue ids, insertion codes, hetero, optional fields, box, intra- and inter-residue bonds) "
    "written to CIF (serialize + StringIO), BinaryCIF and compressed BinaryCIF (file or block object handed to "
    "set_structure); non-trivial = >= 2 residues and "
    "(>= 1 inter-residue bond or >= 2 models or a name containing a quote/prime)"
)


def setup():
    make_ccd.use()


# --------------------------------------------------------------------------
# constants mirrored from the documentation (not imported from biotite)
# --------------------------------------------------------------------------
BT_ANY, BT_SINGLE, BT_DOUBLE, BT_TRIPLE, BT_QUAD = 0, 1, 2, 3, 4
BT_ASINGLE, BT_ADOUBLE, BT_ATRIPLE, BT_COORD, BT_AROM = 5, 6, 7, 8, 9
ALL_TYPES = list(range(10))
BT_NAMES = ["ANY", "SINGLE", "DOUBLE", "TRIPLE", "QUADRUPLE", "AROMATIC_SINGLE", "AROMATIC_DOUBLE",
            "AROMATIC_TRIPLE", "COORDINATION", "AROMATIC"]
CCD_TYPE = {
    ("SING", "N"): BT_SINGLE, ("DOUB", "N"): BT_DOUBLE, ("TRIP", "N"): BT_TRIPLE, ("QUAD", "N"): BT_QUAD,
    ("SING", "Y"): BT_ASINGLE, ("DOUB", "Y"): BT_ADOUBLE, ("TRIP", "Y"): BT_ATRIPLE,
}
# inter-residue types that struct_conn reads back as written (finding C04-F1 covers the others)
INTER_FAITHFUL = (BT_SINGLE, BT_COORD)

BY_ID = make_ccd.BY_ID
PEPTIDE_NAMES = [c["id"] for c in make_ccd.COMPONENTS if c["type"].endswith("PEPTIDE LINKING")]
NUCLEIC_NAMES = [c["id"] for c in make_ccd.COMPONENTS if c["type"] in ("RNA LINKING", "DNA LINKING")]
OTHER_NAMES = [c["id"] for c in make_ccd.COMPONENTS if c["id"] not in PEPTIDE_NAMES + NUCLEIC_NAMES]
# names biotite's writer treats as canonical although the synthetic CCD lacks them: an artefact of the
# fixture, never generated
CANONICAL_NOT_IN_FIXTURE = {
    "ARG", "ASN", "ASP", "GLN", "GLU", "HIS", "ILE", "LEU", "MET", "PRO", "PYL", "THR", "TRP", "TYR", "VAL",
    "SEC", "DG", "DC",
}
AWK = "ABCNOPHXZabz0123456789'\"*+-"
MASK_PRESENT, MASK_INAPPLICABLE, MASK_MISSING = 0, 1, 2


def _link_class(name):
    c = BY_ID.get(name)
    if c is None:
        return None
    if c["type"] in ("PEPTIDE LINKING", "L-PEPTIDE LINKING", "D-PEPTIDE LINKING"):
        return "pep"
    if c["type"] in ("RNA LINKING", "DNA LINKING"):
        return "nuc"
    return None


# --------------------------------------------------------------------------
# plain-data case -> flat python description
# --------------------------------------------------------------------------
def flatten(case):
    fl = {k: [] for k in ("chain_id", "res_id", "ins_code", "res_name", "hetero", "atom_name", "element", "res_index")}
    for ri, r in enumerate(case["residues"]):
        for an, el in r["atoms"]:
            fl["chain_id"].append(r["chain"])
            fl["res_id"].append(r["res_id"])
            fl["ins_code"].append(r["ins"])
            fl["res_name"].append(r["name"])
            fl["hetero"].append(bool(r["hetero"]))
            fl["atom_name"].append(an)
            fl["element"].append(el)
            fl["res_index"].append(ri)
    return fl


def residue_spans(fl):
    """[(start, stop)] by the documented rule: a residue starts where chain, id, ins code or name changes."""
    n = len(fl["atom_name"])
    starts = [0]
    for i in range(1, n):
        if any(fl[k][i] != fl[k][i - 1] for k in ("chain_id", "res_id", "ins_code", "res_name")):
            starts.append(i)
    return list(zip(starts, starts[1:] + [n]))


def make_coords(case, n):
    m = max(1, case["models"])
    size = m * n * 3
    rng = np.random.default_rng(case["coord_seed"])
    mode = case["coord_mode"]
    if mode == "pdb":
        flat = (rng.integers(-99999, 100000, size=size) / 1000.0).astype(np.float32)
    elif mode == "unit":
        flat = rng.uniform(-100, 100, size=size).astype(np.float32)
    elif mode == "bits":
        flat = rng.integers(0, 2**32, size=size, dtype=np.uint64).astype(np.uint32).view(np.float32).copy()
        flat[~np.isfinite(flat)] = np.float32(0.5)
    else:
        flat = np.zeros(size, dtype=np.float32)
    for idx, val in case.get("coord_special", []):
        v = np.float32(val)
        if np.isfinite(v):
            flat[idx % size] = v
    coord = flat.reshape((m, n, 3))
    return coord if case["models"] > 0 else coord[0]


def make_float_field(spec, n):
    """spec = [seed, mode, dtype]"""
    seed, mode, dtype = spec
    rng = np.random.default_rng(seed)
    if mode == "2dec":
        v = np.round(rng.uniform(0, 100, size=n), 2)
    elif mode == "occ":
        v = rng.integers(0, 101, size=n) / 100.0
    else:
        v = rng.standard_normal(n) * 10.0 ** rng.integers(-5, 6, size=n)
    return v.astype(np.float32 if dtype == "f4" else np.float64)


def cell_to_box(cell):
    """own float64 formula; cell = dict(a,b,c,alpha,beta,gamma[deg], rot=seed|None)"""
    a, b, c = cell["a"], cell["b"], cell["c"]
    al, be, ga = (math.radians(cell[k]) for k in ("alpha", "beta", "gamma"))
    bx, by = b * math.cos(ga), b * math.sin(ga)
    cx = c * math.cos(be)
    cy = c * (math.cos(al) - math.cos(be) * math.cos(ga)) / math.sin(ga)
    cz2 = c * c - cx * cx - cy * cy
    # non-degenerate cells only: the third vector keeps at least 5 % of its length out of the
    # a/b plane (alpha = beta = gamma = 120 is planar; rounding leaves cz2 ~ 1e-15 > 0)
    if cz2 <= (0.05 * c) ** 2:
        return None
    box = np.array([[a, 0, 0], [bx, by, 0], [cx, cy, math.sqrt(cz2)]], dtype=np.float64)
    # exact zeros for right angles (cos(pi/2) is 6e-17 in floating point)
    box[np.abs(box) < 1e-12 * (a + b + c)] = 0.0
    if cell.get("rot") is not None:
        rng = np.random.default_rng(cell["rot"])
        q, _ = np.linalg.qr(rng.standard_normal((3, 3)))
        if np.linalg.det(q) < 0:
            q[:, 0] = -q[:, 0]
        box = box @ q.T
    return box.astype(np.float32)


def cell_params(box):
    """lengths and angles (rad) of box vectors, float64"""
    box = np.asarray(box, dtype=np.float64)
    la, lb, lc = (np.linalg.norm(box[i]) for i in range(3))

    def ang(u, v, lu, lv):
        return math.acos(max(-1.0, min(1.0, float(np.dot(u, v)) / (lu * lv))))

    return (la, lb, lc), (ang(box[1], box[2], lb, lc), ang(box[0], box[2], la, lc), ang(box[0], box[1], la, lb))


def build_array(case, fl=None):
    import biotite.structure as struc

    fl = fl or flatten(case)
    n = len(fl["atom_name"])
    m = case["models"]
    arr = struc.AtomArray(n) if m == 0 else struc.AtomArrayStack(m, n)
    for k in ("chain_id", "ins_code", "res_name", "atom_name", "element"):
        arr.set_annotation(k, np.array(fl[k], dtype=str))
    arr.set_annotation("res_id", np.array(fl["res_id"], dtype=int))
    arr.set_annotation("hetero", np.array(fl["hetero"], dtype=bool))
    arr.coord = make_coords(case, n)
    opt = case.get("opt", {})
    if opt.get("atom_id") is not None:
        arr.set_annotation("atom_id", np.array(opt["atom_id"], dtype=int))
    if opt.get("charge") is not None:
        arr.set_annotation("charge", np.array(opt["charge"], dtype=int))
    if opt.get("entity") is not None:
        arr.set_annotation("label_entity_id", np.array(opt["entity"], dtype=int))
    if opt.get("b_factor") is not None:
        arr.set_annotation("b_factor", make_float_field(opt["b_factor"], n))
    if opt.get("occupancy") is not None:
        arr.set_annotation("occupancy", make_float_field(opt["occupancy"], n))
    for name, values in case.get("extra", []):
        arr.set_annotation(name, np.array(values, dtype=str))
    if case.get("bonds") is not None:
        arr.bonds = struc.BondList(n, np.array(case["bonds"], dtype=np.int64).reshape(-1, 3))
    if case.get("cell") is not None:
        box = cell_to_box(case["cell"])
        if box is not None:
            arr.box = box if m == 0 else np.repeat(box[np.newaxis], m, axis=0)
    return arr


# --------------------------------------------------------------------------
# reference models
# --------------------------------------------------------------------------
def bond_dict(bonds):
    return {(min(i, j), max(i, j)): t for i, j, t in bonds}


def bonds_consistent_per_name(fl, spans, bonds):
    """chem_comp_bond is keyed by (residue name, atom name, atom name): True if the input intra-residue
    bonds can be expressed that way (same bonds in every residue of one name)."""
    res_of = {}
    for ri, (s, e) in enumerate(spans):
        for i in range(s, e):
            res_of[i] = ri
    template = {}
    for (i, j), t in bonds.items():
        if res_of[i] != res_of[j]:
            continue
        key = (fl["res_name"][i], frozenset((fl["atom_name"][i], fl["atom_name"][j])))
        if template.setdefault(key, t) != t:
            return False
    for s, e in spans:
        names = fl["atom_name"][s:e]
        if len(set(names)) != len(names):
            return False
        pos = {nm: s + k for k, nm in enumerate(names)}
        for (rn, pair), t in template.items():
            if rn != fl["res_name"][s] or len(pair) != 2:
                continue
            x, y = tuple(pair)
            if x in pos and y in pos:
                if bonds.get((min(pos[x], pos[y]), max(pos[x], pos[y]))) != t:
                    return False
    return True


def ccd_intra_bonds(fl, spans):
    out = {}
    for s, e in spans:
        comp = BY_ID.get(fl["res_name"][s])
        if comp is None:
            continue
        names = fl["atom_name"][s:e]
        for x, y, order, arom in comp["bonds"]:
            for i in (s + k for k, nm in enumerate(names) if nm == x):
                for j in (s + k for k, nm in enumerate(names) if nm == y):
                    out[(min(i, j), max(i, j))] = CCD_TYPE[(order, arom)]
    return out


def reader_links(fl, spans, with_diff=False):
    """bonds connect_via_residue_names() documents for adjacent linking residues.

    The documentation speaks of "adjacent residues" / "consecutive amino acids and nucleotides"; the
    implementation links every pair of neighbours in the array whose residue ids do not differ by more than
    +1 (so also 50 -> 49 or 30 -> -20).  Only the difference +1 is what the documentation certainly means;
    with_diff=True returns (i, j, res_id difference) so that the caller can tell the two apart."""
    out = []
    for (s0, e0), (s1, e1) in zip(spans, spans[1:]):
        if fl["chain_id"][s0] != fl["chain_id"][s1]:
            continue
        diff = fl["res_id"][s1] - fl["res_id"][s0]
        if diff > 1:
            continue
        c0, c1 = _link_class(fl["res_name"][s0]), _link_class(fl["res_name"][s1])
        if c0 is None or c0 != c1:
            continue
        x, y = ("C", "N") if c0 == "pep" else ("O3'", "P")
        i = [k for k in range(s0, e0) if fl["atom_name"][k] == x]
        j = [k for k in range(s1, e1) if fl["atom_name"][k] == y]
        if i and j:
            out.append((i[0], j[0], diff) if with_diff else (i[0], j[0]))
    return out


class BondSpec:
    """what the bond list read back may look like.

    alternatives: list of (label, dict) - complete acceptable bond dicts apart from the optional links;
    optional: {(i, j): type} - bonds whose presence is accepted but not demanded."""

    def __init__(self, alternatives, optional):
        self.alternatives = alternatives
        self.optional = optional

    def match(self, got):
        """-> label of the alternative that equals `got` (optional links disregarded) or None"""
        core = {k: t for k, t in got.items() if not (k in self.optional and self.optional[k] == t)}
        for label, want in self.alternatives:
            if core == want:
                return label
        return None

    def nearest(self, got):
        core = {k: t for k, t in got.items() if not (k in self.optional and self.optional[k] == t)}

        def dist(want):
            return len(set(want.items()) ^ set(core.items()))

        return core, min((w for _, w in self.alternatives), key=dist)


def expected_bonds(o, case, fl, spans, write_intra):
    """-> BondSpec or None when the case is outside the domain"""
    inp = bond_dict(case["bonds"])
    res_of = {}
    for ri, (s, e) in enumerate(spans):
        for i in range(s, e):
            res_of[i] = ri
    intra = {k: t for k, t in inp.items() if res_of[k[0]] == res_of[k[1]]}
    inter = {k: t for k, t in inp.items() if res_of[k[0]] != res_of[k[1]]}
    if intra and write_intra:
        if not bonds_consistent_per_name(fl, spans, inp):
            return None
        intra_alts = [("intra_as_written", dict(intra))]
        o.label("intra_from_chem_comp_bond")
    else:
        ccd = ccd_intra_bonds(fl, spans)
        intra_alts = [("intra_from_ccd", ccd)]
        if ccd != intra:
            o.label("intra_from_ccd_fallback_differs")
            if write_intra:
                # include_bonds=True was given and the structure has no intra-residue bond: today no
                # chem_comp_bond category is written and the reader falls back to the CCD (documented for a
                # file without the category); a writer that records "no bonds" explicitly returns exactly the
                # input, which is what the property statement says.  Both are accepted.
                intra_alts.append(("intra_none_as_in_input", dict(intra)))
        else:
            o.label("intra_from_ccd_fallback_same")
    added = 0
    optional = {}
    for i, j, diff in reader_links(fl, spans, with_diff=True):
        if (i, j) not in inter:
            if diff == 1:
                inter[(i, j)] = BT_SINGLE
                added += 1
            else:
                optional[(i, j)] = BT_SINGLE
    if added:
        o.label("link_added_by_reader")
    if optional:
        o.label("link_optional_nonconsecutive_res_id")
    alts = []
    for label, d in intra_alts:
        d = dict(d)
        d.update(inter)
        alts.append((label, d))
    return BondSpec(alts, optional)


def check_bonds(o, tag, got, spec):
    """got: dict of the bonds read back; spec: BondSpec"""
    hit = spec.match(got)
    if hit is not None:
        if len(spec.alternatives) > 1:
            o.label("bonds_read_back=" + hit)
        if spec.optional:
            o.label("optional_link_present" if any(k in got for k in spec.optional) else "optional_link_absent")
        return True
    core, want = spec.nearest(got)
    _report_bond_diff(o, tag, core, want)
    return False


def got_bonds(arr):
    return {(int(min(i, j)), int(max(i, j))): int(t) for i, j, t in arr.bonds.as_array()}


# --------------------------------------------------------------------------
# writing / reading routes
# --------------------------------------------------------------------------
ROUTE_TOL = {"bcif_c6": 1e-6, "bcif_c3": 1e-3, "bcif_c9": 1e-9}


def routes_for(case):
    """a generated case compresses with one tolerance; hand-written cases without the key use both"""
    tol = case.get("compress_tol")
    comp = [r for r, t in ROUTE_TOL.items() if tol is None or t == tol]
    if case.get("binary_only"):
        return ["bcif"] + comp
    return ["cif_ser", "cif_io", "bcif"] + comp


def write_file(arr, kind, write_intra, extra_names, via_block=False):
    from biotite.structure.io import pdbx

    f = pdbx.CIFFile() if kind == "cif" else pdbx.BinaryCIFFile()
    if via_block:
        # the documented alternative: hand the block object itself to set_structure()
        blk = pdbx.CIFBlock() if kind == "cif" else pdbx.BinaryCIFBlock()
        pdbx.set_structure(blk, arr, include_bonds=write_intra, extra_fields=list(extra_names))
        f["structure"] = blk
    else:
        pdbx.set_structure(f, arr, include_bonds=write_intra, extra_fields=list(extra_names))
    return f


def through_route(f, route):
    """serialise the in-memory file and parse it again"""
    from biotite.structure.io import pdbx

    if route == "cif_ser":
        return pdbx.CIFFile.deserialize(f.serialize())
    if route == "cif_io":
        s = io.StringIO()
        f.write(s)
        s.seek(0)
        return pdbx.CIFFile.read(s)
    if route in ROUTE_TOL:
        f = pdbx.compress(f, float_tolerance=ROUTE_TOL[route])
    b = io.BytesIO()
    f.write(b)
    b.seek(0)
    return pdbx.BinaryCIFFile.read(b)


# --------------------------------------------------------------------------
# comparison
# --------------------------------------------------------------------------
MANDATORY = ("chain_id", "res_id", "ins_code", "res_name", "hetero", "atom_name", "element")


def want_from_case(case, fl):
    n = len(fl["atom_name"])
    w = {k: list(fl[k]) for k in MANDATORY}
    w["coord"] = make_coords(case, n)
    opt = case.get("opt", {})
    m = max(1, case["models"])
    w["atom_id"] = list(opt["atom_id"]) if opt.get("atom_id") is not None else list(range(1, n + 1))
    w["atom_id_auto"] = opt.get("atom_id") is None
    if opt.get("charge") is not None:
        w["charge"] = list(opt["charge"])
    if opt.get("entity") is not None:
        w["label_entity_id"] = [str(v) for v in opt["entity"]]
    if opt.get("b_factor") is not None:
        w["b_factor"] = make_float_field(opt["b_factor"], n)
    if opt.get("occupancy") is not None:
        w["occupancy"] = make_float_field(opt["occupancy"], n)
    w["extra"] = {name: list(values) for name, values in case.get("extra", [])}
    w["box"] = cell_to_box(case["cell"]) if case.get("cell") is not None else None
    w["m"] = m
    return w


def extra_field_request(w):
    req = ["atom_id"]
    for k in ("charge", "b_factor", "occupancy", "label_entity_id"):
        if k in w:
            req.append(k)
    return req + list(w["extra"])


def compare_atoms(o, got, w, tag, model=None, rows=None, tol=None, fields=True, skip=()):
    """got: AtomArray (model = 0-based model index or None for AtomArray input) or AtomArrayStack (model None).
    rows: indices of the expected atoms (alt-loc filter) or None for all."""
    import biotite.structure as struc

    n_all = len(w["atom_name"])
    rows = list(range(n_all)) if rows is None else list(rows)
    is_stack = isinstance(got, struc.AtomArrayStack)
    if not o.check(got.array_length() == len(rows), "same_atoms_same_order",
                   lambda: f"{tag}: {got.array_length()} atoms, want {len(rows)}"):
        return False
    ok = True
    for k in MANDATORY:
        if k in skip:
            continue
        g = got.get_annotation(k).tolist()
        want = [w[k][i] for i in rows]
        ok &= o.check(g == want, "annotations_equal", lambda: f"{tag}: {k} got {g!r} want {want!r}")
    wc = w["coord"]
    if wc.ndim == 2:
        wc = wc[np.newaxis]
    if is_stack:
        if not o.check(got.stack_depth() == wc.shape[0], "all_models", f"{tag}: depth {got.stack_depth()} want {wc.shape[0]}"):
            return False
        gc = got.coord
        wc = wc[:, rows]
    else:
        gc = got.coord
        wc = wc[0 if model is None else model][rows]
    o.check(gc.dtype == np.float32, "coordinates_identical", f"{tag}: coord dtype {gc.dtype}")
    if tol is None:
        same = gc.shape == wc.shape and np.array_equal(_bits(gc), _bits(wc))
        ok &= o.check(same, "coordinates_identical", lambda: f"{tag}: coord got {gc.tolist()!r} want {wc.tolist()!r}")
        if same and not np.array_equal(_bits(gc, False), _bits(wc, False)):
            o.label("sign_of_zero_not_kept")
    else:
        ok &= _check_close(o, gc, wc, tol, "compressed_within_tolerance", f"{tag}: coord")
    if fields:
        cats = got.get_annotation_categories()
        for k in ("atom_id", "charge", "label_entity_id", "b_factor", "occupancy"):
            if k not in w:
                continue
            if not o.check(k in cats, "optional_fields_equal", f"{tag}: {k} missing"):
                ok = False
                continue
            g = got.get_annotation(k)
            want = [w[k][i] for i in rows]
            if k == "label_entity_id":
                # that set_structure() takes the column from an annotation of this name is a convenience the
                # documentation does not mention (and the name cannot be passed in extra_fields): either the
                # annotation comes back, or the column holds entity ids assigned by the writer - then one
                # chain must not be split over several entities
                if g.tolist() == want:
                    o.label("entity_id_annotation_written")
                else:
                    chains = [w["chain_id"][i] for i in rows]
                    per_chain = {}
                    consistent = all(per_chain.setdefault(c, v) == v for c, v in zip(chains, g.tolist()))
                    nonempty = all(str(v) not in ("", ".", "?") for v in g.tolist())
                    o.label("entity_id_assigned_by_writer")
                    ok &= o.check(consistent and nonempty, "optional_fields_equal",
                                  lambda: f"{tag}: label_entity_id {g.tolist()!r} is neither the annotation {want!r} nor one id per chain")
                continue
            if k == "atom_id" and w["atom_id_auto"] and model:
                want = [v + model * n_all for v in want]
            if k in ("b_factor", "occupancy"):
                want = np.asarray(want)
                if tol is None:
                    same = np.array_equal(np.asarray(g).astype(want.dtype), want)
                    ok &= o.check(same, "optional_fields_equal", lambda: f"{tag}: {k} got {g.tolist()!r} want {want.tolist()!r}")
                else:
                    ok &= _check_close(o, np.asarray(g, dtype=np.float64), want.astype(np.float64), tol,
                                       "compressed_within_tolerance", f"{tag}: {k}")
            else:
                ok &= o.check(g.tolist() == want, "optional_fields_equal", lambda: f"{tag}: {k} got {g.tolist()!r} want {want!r}")
        for name, values in w["extra"].items():
            if not o.check(name in cats, "extra_fields_equal", f"{tag}: {name} missing"):
                ok = False
                continue
            g = got.get_annotation(name).tolist()
            want = [values[i] for i in rows]
            ok &= o.check(g == want, "extra_fields_equal", lambda: f"{tag}: {name} got {g!r} want {want!r}")
    ok &= compare_box(o, got.box, w["box"], tag, w["m"] if is_stack else None, tol)
    return ok


def _bits(a, canonical_zero=True):
    """bit pattern of float32 values; "identical coordinates" is decided on the bits, except that -0.0 and
    +0.0 are the same number (a text form that writes "0.0" for both is faithful)"""
    a = np.ascontiguousarray(a, dtype=np.float32)
    if canonical_zero:
        a = a + np.float32(0.0)  # -0.0 + 0.0 = +0.0, every other finite value unchanged
    return a.view(np.uint32)


def _check_close(o, got, want, tol, clause, what):
    got = np.asarray(got, dtype=np.float64)
    want = np.asarray(want, dtype=np.float64)
    if got.shape != want.shape:
        o.fail(clause, f"{what}: shape {got.shape} != {want.shape}")
        return False
    # float32 slack: decoding divides in single precision (a few roundings); a tolerance far below
    # single precision asks for practically lossless floats, so the slack must not swallow 1e-6
    slack = 8 if tol >= 1e-6 else 2
    lim = tol * 1.01 * np.abs(want) + slack * np.finfo(np.float32).eps * np.abs(want) + 1e-44
    bad = np.abs(got - want) > lim
    return o.check(not bad.any(), clause, lambda: f"{what}: got {got[bad][:5].tolist()} want {want[bad][:5].tolist()} (rel tol {tol})")


def compare_box(o, gbox, wbox, tag, depth, tol=None):
    """tol: relative float tolerance of the compress()ed route (the six cell parameters are floats of the file
    like any other; that single values are stored uncompressed today is an optimisation)"""
    if wbox is None:
        return o.check(gbox is None, "box_equivalent", f"{tag}: box {gbox!r} although none was written")
    if not o.check(gbox is not None, "box_equivalent", f"{tag}: box lost"):
        return False
    from biotite.structure.box import unitcell_from_vectors, vectors_from_unitcell

    gbox = np.asarray(gbox)
    if depth is not None:
        if not o.check(gbox.shape == (depth, 3, 3), "box_equivalent", f"{tag}: box shape {gbox.shape}"):
            return False
        boxes = list(gbox)
    else:
        if not o.check(gbox.shape == (3, 3), "box_equivalent", f"{tag}: box shape {gbox.shape}"):
            return False
        boxes = [gbox]
    (wl, wa) = cell_params(wbox)
    scale = max(wl)
    ref = vectors_from_unitcell(*unitcell_from_vectors(wbox))
    ok = True
    t = tol or 0.0
    # an angle moved by d rad moves the vector end by ~ length * d (d <= 2.1 t for angles <= 120 deg); the
    # third vector of a flat cell (height >= 5 % by construction) amplifies this by up to ~20
    atol_vec = max(2e-5, 50 * t) * scale
    atol_len = max(1e-4, 2 * t) * scale
    atol_ang = max(5e-3, 2 * t * math.pi)
    for b in boxes:
        ok &= o.check(np.allclose(b, ref, rtol=0, atol=atol_vec), "box_equivalent",
                      lambda: f"{tag}: box {b.tolist()} want unit-cell round trip {ref.tolist()}")
        (gl, ga) = cell_params(b)
        ok &= o.check(all(abs(x - y) <= atol_len for x, y in zip(gl, wl)), "box_equivalent",
                      lambda: f"{tag}: cell lengths {gl} want {wl}")
        ok &= o.check(all(abs(x - y) <= atol_ang for x, y in zip(ga, wa)), "box_equivalent",
                      lambda: f"{tag}: cell angles {ga} want {wa}")
    return ok


def same_decoded(o, a, b, tag):
    """text-vs-binary differential on two decoded structures"""
    ok = type(a) is type(b) and a.shape == b.shape
    if not o.check(ok, "text_and_binary_agree", f"{tag}: {type(a).__name__}{a.shape} vs {type(b).__name__}{b.shape}"):
        return
    ca, cb = sorted(a.get_annotation_categories()), sorted(b.get_annotation_categories())
    if not o.check(ca == cb, "text_and_binary_agree", f"{tag}: categories {ca} vs {cb}"):
        return
    for k in ca:
        x, y = a.get_annotation(k), b.get_annotation(k)
        if x.dtype.kind == "f":
            # a float32 annotation is written with float32 digits in the text form and as raw float32 in
            # the binary form: equal as float32 (both are compared exactly with the input elsewhere)
            same = np.array_equal(x, y, equal_nan=True) or np.array_equal(x.astype(np.float32), y.astype(np.float32), equal_nan=True)
        else:
            same = x.tolist() == y.tolist()
        o.check(same, "text_and_binary_agree", lambda: f"{tag}: {k} {x.tolist()!r} vs {y.tolist()!r}")
    o.check(np.array_equal(_bits(a.coord), _bits(b.coord)), "text_and_binary_agree", f"{tag}: coord differ")
    if a.bonds is None or b.bonds is None:
        o.check(a.bonds is None and b.bonds is None, "text_and_binary_agree", f"{tag}: bonds present in one only")
    else:
        o.check(got_bonds(a) == got_bonds(b), "text_and_binary_agree", lambda: f"{tag}: bonds {got_bonds(a)} vs {got_bonds(b)}")
    if a.box is None or b.box is None:
        o.check(a.box is None and b.box is None, "text_and_binary_agree", f"{tag}: box present in one only")
    else:
        sc = float(np.abs(a.box).max())
        o.check(np.allclose(a.box, b.box, rtol=0, atol=1e-5 * sc), "text_and_binary_agree",
                lambda: f"{tag}: box {a.box.tolist()} vs {b.box.tolist()}")


# --------------------------------------------------------------------------
# strategies
# --------------------------------------------------------------------------
# values that are special in the text format (keywords, comment / data name / text field / frame openers,
# blanks inside and around a value, the empty string).  The bare placeholders "." and "?" mean "inapplicable" /
# "missing" in the text format and are not names there (C06's layer); a bare "?" is generated for the
# BinaryCIF routes only (key binary_only, see st_structure; regression of fix C04-e).
AWK_TOKENS = ["", "a b", "_x", "#x", ";x", "data_x", "loop_", "$x", "[x", " x", "x ", "save_", "stop_", "global_"]


def st_awk(max_size, tokens=True):
    plain = st.text("ABCXZ0123456789", min_size=1, max_size=max_size)
    awkward = st.text(AWK, min_size=1, max_size=max_size)
    if not tokens:
        return st.one_of(plain, awkward)
    special = st.sampled_from([t for t in AWK_TOKENS if len(t) <= max_size])
    # about one name in forty is a special token (a structure has 10-40 names)
    return st.integers(0, 39).flatmap(lambda r: special if r == 0 else (plain if r < 16 else awkward))


def st_unknown_resname():
    # an empty residue / atom name is refused by set_structure(include_bonds=True) with an explicit
    # BadStructureError ("required to write intra-residue bonds"): not a well-formed name
    return st_awk(5).filter(lambda s: s != "" and s.upper() not in BY_ID and s.upper() not in CANONICAL_NOT_IN_FIXTURE)


def st_resname():
    return st.one_of(
        st.sampled_from(PEPTIDE_NAMES),
        st.sampled_from(PEPTIDE_NAMES + NUCLEIC_NAMES),
        st.sampled_from(OTHER_NAMES),
        st_unknown_resname(),
    )


ELEMENTS = ["C", "N", "O", "S", "H", "P", "FE", "ZN", "CL", "X", ""]
INT32_MAX = 2**31 - 1


def st_res_id_start():
    return st.one_of(
        st.integers(-20, 200),
        st.integers(-INT32_MAX, INT32_MAX - 1000),
        st.sampled_from([0, -1, 9999, 10000, 99999, -999, -1000]),
    )


@st.composite
def st_atoms(draw, name, max_atoms, unique):
    comp = BY_ID.get(name)
    atoms = []
    if comp is not None and comp["atoms"]:
        pool = comp["atoms"]
        cls = _link_class(name)
        picked = []
        if cls is not None and draw(st.integers(0, 3)) > 0:
            bb = ["N", "CA", "C"] if cls == "pep" else ["P", "O5'", "C3'", "O3'"]
            picked = [a for a in pool if a[0] in bb]
        rest = draw(st.lists(st.sampled_from(pool), max_size=max(0, max_atoms - len(picked)), unique_by=lambda a: a[0]))
        seen = set()
        for an, el in picked + rest:
            if an not in seen:
                seen.add(an)
                atoms.append([an, el])
        if draw(st.booleans()):
            atoms = [atoms[i] for i in draw(st.permutations(list(range(len(atoms)))))]
    n_extra = draw(st.integers(0 if atoms else 1, 2 if atoms else max(1, max_atoms)))
    for _ in range(n_extra):
        atoms.append([draw(st_awk(6).filter(lambda s: s != "")), draw(st.sampled_from(ELEMENTS))])
    if unique:
        seen, uniq = set(), []
        for an, el in atoms:
            if an not in seen:
                seen.add(an)
                uniq.append([an, el])
        atoms = uniq
    return atoms[: max(1, max_atoms)]


@st.composite
def st_residues(draw, tier, max_res, max_atoms, unique_atoms):
    n_res = draw(st.integers(1, max_res))
    residues = []
    used = set()
    names_at = {}
    chain = draw(st_awk(4))
    res_id = draw(st_res_id_start())
    ins = ""
    polymer = draw(st.sampled_from([None, None, "pep", "nuc"]))
    # numbering flavour: insertion-code runs (same res_id, codes A, B, ...) and descending numbering make
    # residues that are *not* neighbours have res ids that differ by <= 1
    numbering = draw(st.sampled_from(["normal", "normal", "normal", "ins_run", "descending"]))
    steps = {
        "normal": ["next", "next", "next", "next", "ins", "gap", "back", "chain", "chain_reset", "hetname"],
        "ins_run": ["ins", "ins", "ins", "next", "chain"],
        "descending": ["back1", "back1", "back1", "ins", "next"],
    }[numbering]
    name = None
    for r in range(n_res):
        prev_name = name
        if r > 0:
            step = draw(st.sampled_from(steps))
            if step == "next":
                res_id, ins = res_id + 1, ""
            elif step == "ins":
                ins = draw(st.sampled_from("ABCZ19"))
            elif step == "back1":
                res_id, ins = res_id - 1, ""
            elif step == "gap":
                res_id, ins = res_id + draw(st.integers(2, 50)), ""
            elif step == "back":
                res_id, ins = res_id - draw(st.integers(1, 50)), ""
            elif step == "chain":
                chain, res_id, ins = draw(st_awk(4)), res_id + 1, ""
            elif step == "hetname":
                pass  # same chain, id and insertion code: only the residue name tells the two apart
            else:
                chain, res_id, ins = draw(st_awk(4)), draw(st_res_id_start()), ""
        res_id = max(-INT32_MAX, min(INT32_MAX, res_id))
        if numbering == "ins_run" and prev_name is not None and draw(st.booleans()):
            name = prev_name  # same name, same res_id, only the insertion code differs
        elif polymer == "pep" and draw(st.integers(0, 4)) > 0:
            name = draw(st.sampled_from(PEPTIDE_NAMES))
        elif polymer == "nuc" and draw(st.integers(0, 4)) > 0:
            name = draw(st.sampled_from(NUCLEIC_NAMES))
        else:
            name = draw(st_resname())
        key = (chain, res_id, ins)
        tries = 0
        if r > 0 and step == "hetname" and name not in names_at.get(key, ()):
            # microheterogeneity: (chain, res_id, ins_code) repeated with another residue name
            names_at.setdefault(key, set()).add(name)
            atoms = draw(st_atoms(name, max_atoms, unique_atoms))
            hetero = draw(st.booleans())
            residues.append({"chain": chain, "res_id": res_id, "ins": ins, "name": name, "hetero": hetero, "atoms": atoms})
            continue
        while key in used:
            # make the residue uniquely identifiable
            if numbering == "ins_run" and tries < 20:
                ins = "ABCDEFGHIJKLMNOPQRSTUVWXYZ"[(tries + len(used)) % 26]
            else:
                res_id = res_id + 1 if res_id < INT32_MAX else -INT32_MAX + tries
            key = (chain, res_id, ins)
            tries += 1
        used.add(key)
        names_at.setdefault(key, set()).add(name)
        atoms = draw(st_atoms(name, max_atoms, unique_atoms))
        hetero = draw(st.booleans()) if _link_class(name) else draw(st.integers(0, 3)) > 0
        residues.append({"chain": chain, "res_id": res_id, "ins": ins, "name": name, "hetero": hetero, "atoms": atoms})
    return residues


def _open(fid):
    return findings.is_open(fid)


@st.composite
def st_bonds(draw, residues, narrowed):
    """bond list consistent per residue name (see module docstring); returns list of [i, j, t]"""
    fl = flatten({"residues": residues})
    spans = residue_spans(fl)
    n = len(fl["atom_name"])
    bonds = {}
    mode = draw(st.sampled_from(["ccd", "random", "mixed", "inter_only"]))
    # ---- intra-residue templates per residue name
    by_name = {}
    for s, e in spans:
        by_name.setdefault(fl["res_name"][s], []).append((s, e))
    for name in sorted(by_name):
        template = {}
        comp = BY_ID.get(name)
        use_ccd = comp is not None and mode in ("ccd", "mixed") and (mode == "ccd" or draw(st.booleans()))
        if mode == "inter_only":
            pass
        elif use_ccd:
            for x, y, order, arom in comp["bonds"]:
                template[frozenset((x, y))] = CCD_TYPE[(order, arom)]
        else:
            names = sorted({nm for s, e in by_name[name] for nm in fl["atom_name"][s:e]})
            if len(names) >= 2:
                k = draw(st.integers(0, min(6, len(names) * (len(names) - 1) // 2)))
                for _ in range(k):
                    x = draw(st.sampled_from(names))
                    y = draw(st.sampled_from(names))
                    if x == y:
                        continue
                    t = draw(st.sampled_from(ALL_TYPES))
                    if t == BT_COORD and _open("C04-F2"):
                        narrowed.append("C04-F2")
                        t = BT_SINGLE
                    template[frozenset((x, y))] = t
        for s, e in by_name[name]:
            pos = {}
            for k in range(s, e):
                pos.setdefault(fl["atom_name"][k], k)
            for pair, t in template.items():
                x, y = tuple(pair)
                if x in pos and y in pos:
                    bonds[(min(pos[x], pos[y]), max(pos[x], pos[y]))] = t
    # ---- canonical links between adjacent linking residues
    for i, j in reader_links(fl, spans):
        if draw(st.integers(0, 9)) > 0:
            bonds[(i, j)] = BT_SINGLE
    # ---- arbitrary inter-residue bonds
    if len(spans) >= 2:
        res_of = [0] * n
        for ri, (s, e) in enumerate(spans):
            for k in range(s, e):
                res_of[k] = ri
        for _ in range(draw(st.integers(0, 4))):
            kind = draw(st.sampled_from(["any", "backbone_like"]))
            if kind == "backbone_like":
                # C/O3' of one residue to N/P of another one (adjacent or not): what the writer may regard
                # as a standard polymer link
                cand_i = [k for k in range(n) if fl["atom_name"][k] in ("C", "O3'")]
                cand_j = [k for k in range(n) if fl["atom_name"][k] in ("N", "P")]
                if not cand_i or not cand_j:
                    continue
                i = draw(st.sampled_from(cand_i))
                near = [k for k in cand_j if 0 < res_of[k] - res_of[i] <= 3]
                j = draw(st.sampled_from(near)) if near and draw(st.booleans()) else draw(st.sampled_from(cand_j))
            else:
                i, j = draw(st.integers(0, n - 1)), draw(st.integers(0, n - 1))
            if res_of[i] == res_of[j]:
                continue
            t = draw(st.sampled_from(ALL_TYPES + [BT_SINGLE, BT_COORD, BT_COORD, BT_COORD, BT_SINGLE]))
            if kind == "backbone_like" and draw(st.booleans()):
                t = BT_SINGLE
            if t not in INTER_FAITHFUL and _open("C04-F1"):
                narrowed.append("C04-F1")
                t = BT_SINGLE
            bonds[(min(i, j), max(i, j))] = t
    return [[i, j, t] for (i, j), t in sorted(bonds.items())]


def st_cell():
    length = st.floats(5.0, 50.0, width=32)
    angle = st.one_of(st.just(90.0), st.floats(60.0, 84.0, width=32), st.floats(96.0, 120.0, width=32))

    def valid(c):
        return c is not None and cell_to_box(c) is not None

    ortho = st.fixed_dictionaries({"a": length, "b": length, "c": length, "alpha": st.just(90.0), "beta": st.just(90.0),
                                   "gamma": st.just(90.0), "rot": st.none()})
    tric = st.fixed_dictionaries({"a": length, "b": length, "c": length, "alpha": angle, "beta": angle, "gamma": angle,
                                  "rot": st.one_of(st.none(), st.none(), st.integers(0, 2**16))}).filter(valid)
    return st.one_of(st.none(), ortho, tric)


EXTRA_NAMES = ["foo", "my_field", "sec_struct", "label_custom", "B_extra"]


@st.composite
def st_optional(draw, n, for_altloc=False):
    opt = {}
    if draw(st.booleans()):
        # third flavour: values on both sides of every integer-width boundary (the compressed
        # BinaryCIF route picks the smallest integer type that holds the column)
        width = draw(st.sampled_from([2**7, 2**8, 2**15, 2**16]))
        side = draw(st.sampled_from(["top", "top", "bottom", "both"]))
        if side == "top":  # the maximum decides the type: width-1 still fits, width does not
            edges = [-width + 1, -1, 0, 1, width - 2, width - 1, width]
        elif side == "bottom":
            edges = [-width - 1, -width, -width + 1, -1, 0, 1, width - 1]
        else:
            edges = [-width - 1, -width, -width + 1, -1, 0, 1, width - 2, width - 1, width, width + 1]
        opt["atom_id"] = draw(st.one_of(
            st.lists(st.integers(-1000, 100000), min_size=n, max_size=n),
            st.lists(st.integers(-INT32_MAX, INT32_MAX), min_size=n, max_size=n),
            st.lists(st.sampled_from(edges), min_size=n, max_size=n),
        ))
    if draw(st.booleans()):
        opt["charge"] = draw(st.lists(st.sampled_from([0, 0, 0, 1, -1, 2, -2, 9, -9, 5, 10, -12, 25, -100]), min_size=n, max_size=n))
    if draw(st.integers(0, 3)) == 0:
        opt["entity"] = draw(st.lists(st.integers(1, 5), min_size=n, max_size=n))
    if draw(st.booleans()):
        opt["b_factor"] = [draw(st.integers(0, 2**32 - 1)), draw(st.sampled_from(["2dec", "2dec", "any"])), draw(st.sampled_from(["f8", "f4"]))]
    if not for_altloc and draw(st.booleans()):
        opt["occupancy"] = [draw(st.integers(0, 2**32 - 1)), draw(st.sampled_from(["occ", "occ", "any"])), draw(st.sampled_from(["f8", "f4"]))]
    return opt


def st_extra(n):
    value = st.one_of(st.just(""), st_awk(6), st.sampled_from(["HELIX", "1", "-5", "1.50", "a'b", 'q"r', "''"]))
    return st.lists(
        st.tuples(st.sampled_from(EXTRA_NAMES), st.lists(value, min_size=n, max_size=n)), max_size=2, unique_by=lambda t: t[0]
    ).map(lambda l: [list(t) for t in l])


def _sizes(tier, small=False):
    if tier == "quick":
        return (4, 4) if small else (8, 6)
    return (8, 6) if small else (30, 10)


def _put_question_mark(draw, residues):
    """rename one chain id, one residue name unknown to the CCD or one atom name to a bare "?" (in place)"""
    kind = draw(st.sampled_from(["chain", "res_name", "atom_name"]))
    r = residues[draw(st.integers(0, len(residues) - 1))]
    unknown = [x for x in residues if x["name"] not in BY_ID]
    if kind == "res_name" and unknown:
        old = unknown[draw(st.integers(0, len(unknown) - 1))]["name"]
        for x in residues:
            if x["name"] == old:
                x["name"] = "?"
    elif kind == "atom_name":
        r["atoms"][draw(st.integers(0, len(r["atoms"]) - 1))][0] = "?"
    else:
        old = r["chain"]
        for x in residues:
            if x["chain"] == old:
                x["chain"] = "?"


def st_structure(tier, models=None, small=False, allow_bonds=True, question_mark=False):
    max_res, max_atoms = _sizes(tier, small)

    @st.composite
    def gen(draw):
        # a few % of the cases: a name that is a bare "?".  In the text format this token means "missing"
        # (outside the domain there), the binary format stores it like any other string: such a case goes
        # through the BinaryCIF routes only (key binary_only)
        binary_only = question_mark and allow_bonds and draw(st.integers(0, 24)) == 0
        bonds_kind = draw(st.sampled_from(["none", "empty"] + ["bonds"] * 8)) if allow_bonds else "none"
        if binary_only:
            bonds_kind = "bonds"
        residues = draw(st_residues(tier, max_res, max_atoms, unique_atoms=(bonds_kind != "none") or draw(st.integers(0, 3)) > 0))
        if binary_only:
            _put_question_mark(draw, residues)
        n = sum(len(r["atoms"]) for r in residues)
        narrowed = []
        case = {
            "residues": residues,
            "models": draw(models if models is not None else st.sampled_from([0, 0, 1, 2, 3, 4])),
            "coord_seed": draw(st.integers(0, 2**32 - 1)),
            "coord_mode": draw(st.sampled_from(["pdb", "pdb", "pdb", "unit", "bits", "zero"])),
            "coord_special": [],
            "opt": draw(st_optional(n)),
            "extra": draw(st_extra(n)),
            "cell": draw(st_cell()),
            "bonds": None,
            "write_intra": draw(st.integers(0, 5)) > 0,
            # route struct_conn matching through the dictionary implementation used for large files
            "dict_matching": draw(st.integers(0, 3)) == 0,
            # float_tolerance of the compress()ed BinaryCIF route
            "compress_tol": draw(st.sampled_from([1e-6, 1e-3, 1e-9])),
            # set_structure() is handed a block object instead of the file
            "via_block": draw(st.integers(0, 4)) == 0,
        }
        if binary_only:
            case["binary_only"] = True
        if case["coord_mode"] != "pdb":
            # explicit awkward values (denormal, 1e30, -0.0 ...) that shrink as values
            special = st.one_of(st.floats(width=32, allow_nan=False, allow_infinity=False),
                                st.sampled_from([-0.0, 1e30, -1e30, 1.401298464324817e-45, 3.4028234663852886e38, 1e-7, 123456.789, 0.1]))
            case["coord_special"] = [list(t) for t in draw(st.lists(st.tuples(st.integers(0, 10**6), special), max_size=3))]
        if bonds_kind == "empty":
            case["bonds"] = []
        elif bonds_kind == "bonds":
            case["bonds"] = draw(st_bonds(residues, narrowed))
        case["narrowed"] = sorted(narrowed)
        return case

    return gen()


# --------------------------------------------------------------------------
# run: main round trip
# --------------------------------------------------------------------------
def _labels_structure(o, case, fl, spans):
    names = fl["chain_id"] + fl["res_name"] + fl["atom_name"]
    quote = any(("'" in s) or ('"' in s) for s in names)
    both = any(("'" in s) and ('"' in s) for s in names)
    if quote:
        o.label("quote_or_prime_in_name")
    if both:
        o.label("both_quote_kinds_in_name")
    o.label("models=%d" % case["models"] if case["models"] < 2 else "models>=2")
    o.label("residues>=2" if len(spans) >= 2 else "residues=1")
    o.label("atoms=1" if len(fl["atom_name"]) == 1 else "atoms>=2")
    if any(r < 0 for r in fl["res_id"]):
        o.label("negative_res_id")
    if any(abs(r) > 99999 for r in fl["res_id"]):
        o.label("large_res_id")
    if any(fl["ins_code"]):
        o.label("ins_code")
    if any(nm in AWK_TOKENS for nm in names):
        o.label("name_special_in_text_format")
    k3 = [(fl["chain_id"][s], fl["res_id"][s], fl["ins_code"][s]) for s, _ in spans]
    if len(set(k3)) != len(k3):
        o.label("residues_differ_by_name_only")
    if any(fl["hetero"]) and not all(fl["hetero"]):
        o.label("mixed_hetero")
    if any(nm not in BY_ID for nm in fl["res_name"]):
        o.label("res_name_unknown_to_ccd")
    if any(nm in BY_ID for nm in fl["res_name"]):
        o.label("res_name_in_ccd")
    if any(len(c) > 1 for c in fl["chain_id"]):
        o.label("multichar_chain")
    if "" in fl["element"]:
        o.label("empty_element")
    o.label("coord_" + case["coord_mode"])
    cell = case.get("cell")
    if cell is None:
        o.label("box_none")
    elif (cell["alpha"], cell["beta"], cell["gamma"]) == (90.0, 90.0, 90.0):
        o.label("box_orthorhombic")
    else:
        o.label("box_triclinic" + ("_rotated" if cell.get("rot") is not None else ""))
    for k in ("atom_id", "charge", "b_factor", "occupancy", "entity"):
        if case.get("opt", {}).get(k) is not None:
            o.label("opt_" + k)
    if case.get("extra"):
        o.label("extra_fields")
    return quote


def _bond_labels(o, case, fl, spans):
    res_of = {}
    for ri, (s, e) in enumerate(spans):
        for i in range(s, e):
            res_of[i] = ri
    n_inter = 0
    for i, j, t in case["bonds"]:
        if res_of[i] != res_of[j]:
            n_inter += 1
            o.label("inter_" + BT_NAMES[t])
            if abs(res_of[i] - res_of[j]) > 1:
                o.label("inter_nonadjacent")
            if fl["chain_id"][i] != fl["chain_id"][j]:
                o.label("inter_chain")
            if fl["atom_name"][min(i, j)] in ("C", "O3'") and fl["atom_name"][max(i, j)] in ("N", "P"):
                o.label("inter_backbone_names")
        else:
            o.label("intra_" + BT_NAMES[t])
    o.label("inter_bonds>=1" if n_inter else "inter_bonds=0")
    return n_inter


def run_roundtrip(case):
    o = Outcome()
    for fid in case.get("narrowed", []):
        o.exclude(fid)
    fl = flatten(case)
    spans = residue_spans(fl)
    keys = [(fl["chain_id"][s], fl["res_id"][s], fl["ins_code"][s], fl["res_name"][s]) for s, _ in spans]
    if len(set(keys)) != len(keys) or len(spans) != len(case["residues"]):
        o.invalid = True  # residues not uniquely identifiable: outside the stated domain
        return o
    quote = _labels_structure(o, case, fl, spans)
    has_bonds = case["bonds"] is not None
    n_inter = 0
    exp_bonds = None
    if has_bonds:
        o.label("bondlist_empty" if not case["bonds"] else "bondlist")
        n_inter = _bond_labels(o, case, fl, spans)
        exp_bonds = expected_bonds(o, case, fl, spans, case["write_intra"])
        if exp_bonds is None:
            o.invalid = True
            return o
    else:
        o.label("bonds_none")
    o.mark_nontrivial(len(spans) >= 2 and (n_inter >= 1 or case["models"] >= 2 or quote))

    w = want_from_case(case, fl)
    req = extra_field_request(w)
    m = case["models"]
    decoded = {}
    disclaimed = has_bonds and ambiguous_residue_class(fl, spans)
    if disclaimed:
        o.label("equal_residues_same_res_id_with_bonds")
    with _dict_matching(o, bool(case.get("dict_matching")) and has_bonds):
        _roundtrip_routes(o, case, fl, w, req, m, has_bonds, exp_bonds, decoded, disclaimed)
    return o


class _dict_matching:
    """Route the struct_conn matching through the implementation used for very large files.  The switch is a
    module constant that is not part of the public interface: if it is not there (renamed, other
    heuristic) the case runs with the default matcher and says so in a label (the sub-check
    large_struct_conn reaches the other matcher through the size alone)."""

    NAME = "FIND_MATCHES_SWITCH_THRESHOLD"

    def __init__(self, o, wanted):
        self.o, self.wanted, self.mod, self.old = o, wanted, None, None

    def __enter__(self):
        if not self.wanted:
            return self
        try:
            import importlib

            mod = importlib.import_module("biotite.structure.io.pdbx.convert")
        except ImportError:
            mod = None
        old = getattr(mod, self.NAME, None) if mod is not None else None
        if isinstance(old, (int, float)) and not isinstance(old, bool):
            self.mod, self.old = mod, old
            setattr(mod, self.NAME, -1)
            self.o.label("struct_conn_matching_by_dict")
        else:
            self.o.label("struct_conn_matching_switch_unavailable")
        return self

    def __exit__(self, *exc):
        if self.mod is not None:
            setattr(self.mod, self.NAME, self.old)
        return False


def ambiguous_residue_class(fl, spans):
    """set_structure() Notes: "the written inter-residue bonds cannot be read again ... when two equal residues
    in the same chain have the same (or a masked) res_id" - true if the structure has such a pair (same
    chain, residue name and residue id; only the insertion code tells them apart)."""
    seen = set()
    for s, _ in spans:
        key = (fl["chain_id"][s], fl["res_id"][s], fl["res_name"][s])
        if key in seen:
            return True
        seen.add(key)
    return False


def read_structure(o, f, disclaimed, tag, **kw):
    """get_structure(); for the class the documentation disclaims (see ambiguous_residue_class) a refusal to
    assign the struct_conn rows is accepted - the structure is then read without bonds so that everything
    else is still compared.  -> (structure, bonds_were_read)"""
    from biotite import InvalidFileError
    from biotite.structure.io import pdbx

    if not (disclaimed and kw.get("include_bonds")):
        return pdbx.get_structure(f, **kw), bool(kw.get("include_bonds"))
    try:
        return pdbx.get_structure(f, **kw), True
    except InvalidFileError:
        o.label("struct_conn_ambiguity_refused_as_documented")
        kw = dict(kw, include_bonds=False)
        return pdbx.get_structure(f, **kw), False


def _roundtrip_routes(o, case, fl, w, req, m, has_bonds, exp_bonds, decoded, disclaimed=False):
    with warnings.catch_warnings():
        warnings.simplefilter("ignore")
        arr = build_array(case, fl)
        extra_names = list(w["extra"])
        via_block = bool(case.get("via_block"))
        if via_block:
            o.label("set_structure_on_block_object")
        binary_only = bool(case.get("binary_only"))
        files = {"bcif": write_file(arr, "bcif", case["write_intra"], extra_names, via_block)}
        if binary_only:
            o.label("bare_question_mark_name_binary_routes_only")
        else:
            files["cif"] = write_file(arr, "cif", case["write_intra"], extra_names, via_block)
        from biotite.structure.io import pdbx

        # the caller's extra_fields container is one object reused for every route: reading must neither
        # depend on nor change it.  The documented type is "list of str"; a tuple or a set works today and
        # is used too, but an implementation that insists on a list (TypeError / AttributeError) is within
        # the documentation: the case then goes on with a list.
        container = (list, tuple, set)[(len(fl["atom_name"]) + len(req)) % 3]
        shared_req = container(req)
        shared_before = container(shared_req)
        for route in routes_for(case):
            tol = ROUTE_TOL.get(route)
            if tol is not None:
                o.label("compressed_" + route)
            f2 = through_route(files["cif" if route.startswith("cif") else "bcif"], route)
            kw = dict(model=None if m > 0 else 1, include_bonds=has_bonds)
            pre = pdbx.get_structure(f2, model=kw["model"], use_author_fields=False) if binary_only else None
            if container is list:
                got, bonds_read = read_structure(o, f2, disclaimed, route, extra_fields=shared_req, **kw)
            else:
                try:
                    got, bonds_read = read_structure(o, f2, disclaimed, route, extra_fields=shared_req, **kw)
                except (TypeError, AttributeError):
                    o.label("extra_fields_container_rejected")
                    container = list
                    shared_req = list(req)
                    shared_before = list(req)
                    got, bonds_read = read_structure(o, f2, disclaimed, route, extra_fields=shared_req, **kw)
            o.check(
                shared_req == shared_before,
                "reading_does_not_modify_arguments",
                lambda: f"{route}: extra_fields changed from {shared_before!r} to {shared_req!r}",
            )
            decoded[route] = got
            ok = compare_atoms(o, got, w, route, tol=tol)
            if has_bonds and bonds_read:
                if o.check(got.bonds is not None, "same_typed_bonds", f"{route}: no BondList"):
                    check_bonds(o, route, got_bonds(got), exp_bonds)
            else:
                o.check(got.bonds is None, "same_typed_bonds", f"{route}: bonds appeared")
            if route == "cif_ser" or route == "bcif":
                # other documented ways of reading the same file
                g2 = pdbx.get_structure(f2, model=None if m > 0 else 1, use_author_fields=False)
                # set_structure() does not document what it puts into the label_xxx columns for the chain and
                # the residue number (in deposited files label_seq_id / label_asym_id differ from the author
                # values): the label route decides the fields that have one meaning only
                compare_atoms(o, g2, w, route + "/label_fields", fields=False, skip=("res_id", "chain_id"))
                o.check(g2.bonds is None, "same_typed_bonds", f"{route}: include_bonds=False gave bonds")
                if m == 0:
                    g3 = pdbx.get_structure(f2.block, extra_fields=list(req))
                    w1 = dict(w)
                    w1["coord"] = w["coord"][np.newaxis]
                    compare_atoms(o, g3, w1, route + "/model=None")
                else:
                    g3, bonds_read = read_structure(o, f2, disclaimed, route, model=-1, extra_fields=list(req), include_bonds=has_bonds)
                    compare_atoms(o, g3, w, route + "/model=-1", model=m - 1)
                    if has_bonds and bonds_read and g3.bonds is not None:
                        check_bonds(o, route + "/model=-1", got_bonds(g3), exp_bonds)
            if binary_only:
                # the file object was read several times by now: it must still answer as it did the first
                # time and still be writable (the reader replaces "?" by "." for the struct_conn matching -
                # on its own arrays, not on those of the file)
                again, bonds_again = read_structure(o, f2, disclaimed, route, extra_fields=list(req), **kw)
                same = compare_atoms(o, again, w, route + "/second read", tol=tol)
                if has_bonds and bonds_again and again.bonds is not None:
                    same &= check_bonds(o, route + "/second read", got_bonds(again), exp_bonds)
                post = pdbx.get_structure(f2, model=kw["model"], use_author_fields=False)
                for k in MANDATORY:
                    same &= o.check(pre.get_annotation(k).tolist() == post.get_annotation(k).tolist(), "reading_does_not_modify_file",
                                    lambda: f"{route}: label fields, {k} was {pre.get_annotation(k).tolist()!r} before and is "
                                            f"{post.get_annotation(k).tolist()!r} after get_structure(include_bonds={has_bonds})")
                if not same:
                    o.fail("reading_does_not_modify_file", f"{route}: the second read of one file object differs from the first")
                try:
                    out = io.BytesIO()
                    f2.write(out)
                    out.seek(0)
                    f3 = pdbx.BinaryCIFFile.read(out)
                except Exception as e:  # noqa: BLE001 - turned into a violation, not swallowed
                    o.fail("reading_does_not_modify_file", f"{route}: the file object cannot be written after reading: {type(e).__name__}: {e}")
                else:
                    third, _ = read_structure(o, f3, disclaimed, route, extra_fields=list(req), **kw)
                    if not compare_atoms(o, third, w, route + "/written again", tol=tol):
                        o.fail("reading_does_not_modify_file", f"{route}: the file written after reading decodes differently")
        o.label("extra_fields_as_" + container.__name__)
        if "cif_ser" in decoded and "bcif" in decoded:
            same_decoded(o, decoded["cif_ser"], decoded["bcif"], "cif_ser vs bcif")
        if "cif_ser" in decoded and "cif_io" in decoded:
            same_decoded(o, decoded["cif_ser"], decoded["cif_io"], "cif_ser vs cif_io")
        # writing and reading leave the caller's structure as it was
        again = build_array(case, fl)
        same = (
            arr == again
            and np.array_equal(np.asarray(arr.coord), np.asarray(again.coord), equal_nan=True)
            and sorted(arr.get_annotation_categories()) == sorted(again.get_annotation_categories())
            and all(np.array_equal(arr.get_annotation(k), again.get_annotation(k)) for k in again.get_annotation_categories())
        )
        o.check(same, "writing_does_not_modify_arguments", "the structure handed to set_structure() changed")


def _report_bond_diff(o, tag, got, want):
    missing = {k: want[k] for k in want if k not in got}
    extra = {k: got[k] for k in got if k not in want}
    retyped = {k: (got[k], want[k]) for k in want if k in got and got[k] != want[k]}
    if missing:
        o.fail("same_typed_bonds", f"{tag}: bonds lost {missing}")
    if extra:
        o.fail("same_typed_bonds", f"{tag}: bonds appeared {extra}")
    if retyped:
        o.fail("bond_types_equal", f"{tag}: bond types (got, want) {retyped}")


# --------------------------------------------------------------------------
# run: model selection
# --------------------------------------------------------------------------
def run_models(case):
    from biotite.structure.io import pdbx

    o = Outcome()
    for fid in case.get("narrowed", []):
        o.exclude(fid)
    fl = flatten(case)
    spans = residue_spans(fl)
    keys = [(fl["chain_id"][s], fl["res_id"][s], fl["ins_code"][s], fl["res_name"][s]) for s, _ in spans]
    if len(set(keys)) != len(keys) or case["models"] < 1:
        o.invalid = True
        return o
    m = case["models"]
    has_bonds = case["bonds"] is not None
    exp_bonds = None
    if has_bonds:
        exp_bonds = expected_bonds(o, case, fl, spans, case["write_intra"])
        if exp_bonds is None:
            o.invalid = True
            return o
    o.label(f"models={m}", "bonds" if has_bonds else "no_bonds")
    o.mark_nontrivial(m >= 2)
    w = want_from_case(case, fl)
    req = extra_field_request(w)
    disclaimed = has_bonds and ambiguous_residue_class(fl, spans)
    from biotite.structure import AtomArray

    with warnings.catch_warnings():
        warnings.simplefilter("ignore")
        arr = build_array(case, fl)
        # "also after compression": the compressed file answers the same model requests (within its tolerance)
        for kind, route in (("cif", "cif_ser"), ("bcif", "bcif"), ("bcif", "bcif_c6")):
            tol = ROUTE_TOL.get(route)
            f2 = through_route(write_file(arr, kind, case["write_intra"], list(w["extra"])), route)
            o.check_eq(pdbx.get_model_count(f2), m, "model_selects_matching_rows", f"{route}: model count")
            stack, bonds_read = read_structure(o, f2, disclaimed, route, extra_fields=list(req), include_bonds=has_bonds)
            compare_atoms(o, stack, w, route + "/all", tol=tol)
            if has_bonds and bonds_read and o.check(stack.bonds is not None, "same_typed_bonds", f"{route}: no BondList"):
                check_bonds(o, f"{route}/all", got_bonds(stack), exp_bonds)
            for k in range(-m - 3, m + 4) if tol is None else range(1, m + 1):
                # (the compressed file is asked for the models 1..m only: compress() is slow)
                if 1 <= k <= m:
                    idx = k - 1
                elif -m <= k <= -1:
                    idx = m + k
                else:
                    # "model number (starting at 1)", negative values count from the last model: every other
                    # number names no model.  No exception type is documented - any error will do, a returned
                    # structure will not.
                    o.label("model_out_of_range")
                    e = o.expect_raises((Exception,), lambda: pdbx.get_structure(f2, model=k), "nonexistent_model_rejected",
                                        f"{route}: model={k} of {m}")
                    if e is not None:
                        o.label("model_out_of_range_raises_" + type(e).__name__)
                    continue
                got, bonds_read = read_structure(o, f2, disclaimed, route, model=k, extra_fields=list(req), include_bonds=has_bonds)
                if not o.check(isinstance(got, AtomArray), "model_selects_matching_rows", f"{route}: model={k} gave {type(got).__name__}"):
                    continue
                ok = compare_atoms(o, got, w, f"{route}/model={k}", model=idx, tol=tol)
                if not ok:
                    o.fail("model_selects_matching_rows", f"{route}: model={k} of {m} is not model index {idx}")
                if has_bonds and bonds_read and o.check(got.bonds is not None, "same_typed_bonds", f"{route}/model={k}: no BondList"):
                    check_bonds(o, f"{route}/model={k}", got_bonds(got), exp_bonds)
    return o


# --------------------------------------------------------------------------
# run: alternate locations
# --------------------------------------------------------------------------
NO_ALTLOC = (".", "?", " ", "")


def _rows_for(spans, alt, chosen):
    """chosen: one id (or None) per residue -> indices kept: atoms without id + atoms of the chosen id"""
    keep = [a in NO_ALTLOC for a in alt]
    for (s, e), c in zip(spans, chosen):
        for i in range(s, e):
            if c is not None and alt[i] == c:
                keep[i] = True
    return [i for i, k in enumerate(keep) if k]


def ref_altloc_filter(fl, spans, alt, occ, policy):
    """'first': the id appearing first in the residue; 'occupancy': the id with the highest summed occupancy
    (the reading implemented today; see occupancy_readings for the others the documentation admits)"""
    chosen = []
    for s, e in spans:
        letters = [alt[i] for i in range(s, e) if alt[i] not in NO_ALTLOC]
        if not letters:
            chosen.append(None)
        elif policy == "first":
            chosen.append(letters[0])
        else:
            sums = {}
            for i in range(s, e):
                if alt[i] not in NO_ALTLOC:
                    sums[alt[i]] = sums.get(alt[i], 0) + occ[i]
            chosen.append(max(sorted(sums), key=lambda a: sums[a]))
    return _rows_for(spans, alt, chosen)


def occupancy_readings(spans, alt, occ_int, limit=48):
    """"the altloc ID with the highest occupancy for a residue" / "of which the corresponding occupancy values
    are highest for the entire residue": the documentation does not say how the values of one id are
    combined.  -> {reading: [row lists]} for sum, mean and max of the (integer, hundredths) occupancies of
    each id; a tie under one reading admits every tied id.  None if the number of combinations exceeds
    `limit` (nothing is decided then)."""
    import itertools

    out = {}
    total = 0
    for name in ("sum", "mean", "max"):
        winners = []
        for s, e in spans:
            vals = {}
            for i in range(s, e):
                if alt[i] not in NO_ALTLOC:
                    vals.setdefault(alt[i], []).append(occ_int[i])
            if not vals:
                winners.append([None])
                continue
            if name == "sum":
                score = {a: (sum(v), 1) for a, v in vals.items()}
            elif name == "mean":
                score = {a: (sum(v), len(v)) for a, v in vals.items()}
            else:
                score = {a: (max(v), 1) for a, v in vals.items()}
            # exact comparison of fractions p/q by cross-multiplication
            best = [a for a in score if all(score[a][0] * score[b][1] >= score[b][0] * score[a][1] for b in score)]
            winners.append(sorted(best))
        n_comb = 1
        for wl in winners:
            n_comb *= len(wl)
        total += n_comb
        if total > limit:
            return None
        out[name] = [_rows_for(spans, alt, combo) for combo in itertools.product(*winners)]
    return out


def check_occupancy_rows(o, got, w, tag, readings, model=None):
    """the structure read with altloc='occupancy' must be the row set of one of the documented readings"""
    if readings is None:
        o.label("occupancy_policy_too_many_ties")
        o.ambiguous += 1
        return True
    distinct = []
    for name in ("sum", "mean", "max"):
        for rows in readings[name]:
            if rows not in [r for _, r in distinct]:
                distinct.append((name, rows))
    if len(distinct) == 1:
        o.label("occupancy_policy_all_readings_agree")
        return compare_atoms(o, got, w, tag, rows=distinct[0][1], model=model)
    o.label("occupancy_policy_sum_mean_max_differ")
    for name, rows in distinct:
        if compare_atoms(Outcome(), got, w, tag, rows=rows, model=model):
            o.label("occupancy_policy_observed=" + name)
            return compare_atoms(o, got, w, tag, rows=rows, model=model)
    # none fits: report against the reading implemented today
    return compare_atoms(o, got, w, tag, rows=readings["sum"][0], model=model)


def _norm_alt(ids):
    """which placeholder stands for "no alternate location" in the altloc_id annotation is not specified"""
    return ["." if a in NO_ALTLOC else a for a in ids]


def st_altloc(tier):
    @st.composite
    def gen(draw):
        base = draw(st_structure(tier, small=True, allow_bonds=False, models=st.sampled_from([0, 0, 1, 2, 3])))
        base["opt"].pop("occupancy", None)
        base["coord_mode"] = draw(st.sampled_from(["pdb", "unit"]))
        base["coord_special"] = []
        # duplicate atoms inside residues: each atom gets 1..3 copies; copies carry letter ids
        residues = []
        alt = []
        plain = draw(st.sampled_from([False] * 11 + [True]))  # file without any alternate location
        for r in base["residues"]:
            atoms = []
            letters = draw(st.permutations(["A", "B", "C"]))
            whole = not plain and draw(st.sampled_from([False, True, False]))  # whole residue in two conformations
            for an, el in r["atoms"]:
                k = 2 if whole else (1 if plain else draw(st.sampled_from([2, 1, 3, 1, 2])))
                if k == 1:
                    atoms.append([an, el])
                    if whole:
                        alt.append(letters[0])
                    elif plain:
                        alt.append(draw(st.sampled_from([".", ".", "?"])))
                    else:
                        alt.append(draw(st.sampled_from([".", ".", ".", "?", "A"])))
                else:
                    for c in range(k):
                        atoms.append([an, el])
                        alt.append(letters[c])
            residues.append(dict(r, atoms=atoms))
        if not plain and all(a in (".", "?") for a in alt):
            # no duplicate drawn at all: give the first atom two conformations
            first = residues[0]["atoms"][0]
            residues[0] = dict(residues[0], atoms=[list(first)] + residues[0]["atoms"])
            alt[0:1] = ["A", "B"]
        if draw(st.booleans()):
            # conformations stored block-wise (all A, then all B) instead of interleaved
            out_alt = []
            pos = 0
            for r in residues:
                k = len(r["atoms"])
                order = sorted(range(k), key=lambda i: (alt[pos + i] not in (".", "?"), alt[pos + i] if alt[pos + i] not in (".", "?") else "", i))
                if draw(st.booleans()):
                    r["atoms"] = [r["atoms"][i] for i in order]
                    out_alt.extend(alt[pos + i] for i in order)
                else:
                    out_alt.extend(alt[pos : pos + k])
                pos += k
            alt = out_alt
        n = len(alt)
        base["residues"] = residues
        # per-atom fields have to be regenerated for the new atom count
        base["opt"] = draw(st_optional(n, for_altloc=True))
        base["extra"] = draw(st_extra(n))
        occ = draw(st.lists(st.integers(0, 100), min_size=n, max_size=n))
        # no exact ties between the summed occupancies of one residue (left open by the documentation)
        fl = flatten(base)
        for s, e in residue_spans(fl):
            for _ in range(10):
                sums = {}
                for i in range(s, e):
                    if alt[i] not in (".", "?"):
                        sums[alt[i]] = sums.get(alt[i], 0) + occ[i]
                vals = sorted(sums.values(), reverse=True)
                if len(vals) < 2 or vals[0] != vals[1]:
                    break
                first = next(i for i in range(s, e) if alt[i] not in (".", "?"))
                occ[first] += 1
        # residues whose alternate locations all carry one single id may have occupancy 0 throughout
        # (no tie is possible there): the id still has to be kept
        for s, e in residue_spans(fl):
            ids = {alt[i] for i in range(s, e) if alt[i] not in (".", "?")}
            if len(ids) == 1 and draw(st.sampled_from([False, True])):
                for i in range(s, e):
                    if alt[i] not in (".", "?"):
                        occ[i] = 0
        base["alt"] = alt
        base["occ"] = occ  # hundredths
        base["occ_via"] = draw(st.sampled_from(["annotation", "edit", "absent"]))
        # the last model of a multi-model file may carry other alternate-location ids / occupancies
        base["alt_perm"] = "".join(draw(st.permutations(["A", "B", "C"])))
        base["occ_last"] = draw(st.lists(st.integers(0, 100), min_size=n, max_size=n))
        return base

    return gen()


def run_altloc(case):
    from biotite.structure.io import pdbx

    o = Outcome()
    fl = flatten(case)
    spans = residue_spans(fl)
    keys = [(fl["chain_id"][s], fl["res_id"][s], fl["ins_code"][s], fl["res_name"][s]) for s, _ in spans]
    alt = case["alt"]
    n = len(alt)
    if len(set(keys)) != len(keys) or n != len(fl["atom_name"]) or len(spans) != len(case["residues"]):
        o.invalid = True
        return o
    occ = [v / 100.0 for v in case["occ"]]
    m = case["models"]
    reps = max(1, m)
    letters = [a for a in alt if a not in (".", "?")]
    o.label("has_altlocs" if letters else "no_altlocs", "occ_" + case["occ_via"], "models=%d" % m)
    if "?" in alt:
        o.label("missing_mask_altloc")
    multi = any(len({alt[i] for i in range(s, e) if alt[i] not in (".", "?")}) >= 2 for s, e in spans)
    o.mark_nontrivial(multi)
    first_rows = ref_altloc_filter(fl, spans, alt, occ, "first")
    occ_rows = ref_altloc_filter(fl, spans, alt, occ, "occupancy")
    unit_rows = ref_altloc_filter(fl, spans, alt, [1.0] * n, "occupancy")
    if first_rows != occ_rows:
        o.label("first_differs_from_occupancy")
    readings = occupancy_readings(spans, alt, case["occ"])
    w = want_from_case(case, fl)
    req = extra_field_request(w)
    with warnings.catch_warnings():
        warnings.simplefilter("ignore")
        c = dict(case)
        if case["occ_via"] == "annotation":
            w["occupancy"] = np.array(occ)
            req = extra_field_request(w)
        arr = build_array(c, fl)
        if case["occ_via"] == "annotation":
            arr.set_annotation("occupancy", np.array(occ))
        decoded = {}
        for kind, route in (("cif", "cif_ser"), ("bcif", "bcif")):
            f = write_file(arr, kind, False, list(w["extra"]))
            cat = f.block["atom_site"]
            alt_all = np.array(alt * reps)
            if kind == "cif":
                cat["label_alt_id"] = pdbx.CIFColumn(alt_all)
            else:
                mask = np.where(alt_all == ".", MASK_INAPPLICABLE, np.where(alt_all == "?", MASK_MISSING, MASK_PRESENT)).astype(np.uint8)
                cat["label_alt_id"] = pdbx.BinaryCIFColumn(alt_all, mask if mask.any() else None)
            if case["occ_via"] == "edit":
                cat["occupancy"] = np.array(occ * reps)
            f.block["atom_site"] = cat  # whether block[...] hands out the stored object or a copy is not documented
            f2 = through_route(f, route)
            model = None if m > 0 else 1
            for policy in ("first", "occupancy", "all"):
                got = pdbx.get_structure(f2, model=model, altloc=policy, extra_fields=list(req))
                decoded[(route, policy)] = got
                if policy == "all":
                    rows = list(range(n))
                    if o.check("altloc_id" in got.get_annotation_categories(), "altloc_all_keeps_every_row", f"{route}: no altloc_id"):
                        o.check_eq(_norm_alt(got.altloc_id.tolist()), _norm_alt(alt), "altloc_all_keeps_every_row", f"{route}: altloc_id")
                elif policy == "first":
                    rows = first_rows
                elif case["occ_via"] == "absent":
                    # no occupancy information in the file: the documentation does not say which id wins;
                    # accept the 'first' fall-back or "every occupancy counts 1"
                    rows = first_rows
                    if unit_rows != first_rows:
                        o.label("occupancy_policy_without_occupancy_two_readings")
                        if not compare_atoms(Outcome(), got, w, "", rows=first_rows):
                            rows = unit_rows
                else:
                    rows = occ_rows
                    if not check_occupancy_rows(o, got, w, f"{route}/altloc={policy}", readings):
                        o.fail("altloc_policy_selects_matching_rows", f"{route}: altloc={policy} alt={alt} occ={occ} want rows {rows} (sum), or those of mean / max")
                    continue
                ok = compare_atoms(o, got, w, f"{route}/altloc={policy}", rows=rows)
                if not ok:
                    o.fail("altloc_policy_selects_matching_rows", f"{route}: altloc={policy} alt={alt} occ={occ} want rows {rows}")
            if m > 1 and not (case["occ_via"] == "absent" and first_rows != unit_rows):
                if case["occ_via"] == "absent":
                    got = pdbx.get_structure(f2, model=m, altloc="first", extra_fields=list(req))
                    good = compare_atoms(o, got, w, f"{route}/model={m}/altloc", rows=first_rows, model=m - 1)
                else:
                    got = pdbx.get_structure(f2, model=m, altloc="occupancy", extra_fields=list(req))
                    good = check_occupancy_rows(o, got, w, f"{route}/model={m}/altloc", readings, model=m - 1)
                if not good:
                    o.fail("altloc_policy_selects_matching_rows", f"{route}: model={m} with alt-loc filter")
            if letters:
                # the parameter lists its three legal values; no exception type is documented for another one
                e = o.expect_raises((Exception,), lambda: pdbx.get_structure(f2, model=1, altloc="verif_bogus"),
                                    "altloc_policy_selects_matching_rows", f"{route}: bogus altloc option")
                if e is not None:
                    o.label("bogus_altloc_raises_" + type(e).__name__)
            if m > 1 and letters and case["occ_via"] == "edit" and case.get("occ_last") is not None:
                # alternate locations that differ between the models: a single requested model must be
                # filtered by its own ids and occupancies
                pm = dict(zip("ABC", case["alt_perm"]))
                alt_last = [pm.get(a, a) for a in alt]
                occ_last = [v / 100.0 for v in case["occ_last"]]
                readings_last = occupancy_readings(spans, alt_last, case["occ_last"])
                f3 = write_file(arr, kind, False, list(w["extra"]))
                cat3 = f3.block["atom_site"]
                alt_all3 = np.array(alt * (m - 1) + alt_last)
                if kind == "cif":
                    cat3["label_alt_id"] = pdbx.CIFColumn(alt_all3)
                else:
                    mask3 = np.where(alt_all3 == ".", MASK_INAPPLICABLE, np.where(alt_all3 == "?", MASK_MISSING, MASK_PRESENT)).astype(np.uint8)
                    cat3["label_alt_id"] = pdbx.BinaryCIFColumn(alt_all3, mask3 if mask3.any() else None)
                cat3["occupancy"] = np.array(occ * (m - 1) + occ_last)
                f3.block["atom_site"] = cat3
                f4 = through_route(f3, route)
                o.label("altlocs_differ_between_models")
                for mk in (m, -1):
                    got = pdbx.get_structure(f4, model=mk, altloc="all", extra_fields=list(req))
                    if o.check("altloc_id" in got.get_annotation_categories(), "altloc_all_keeps_every_row", f"{route}: no altloc_id"):
                        o.check_eq(_norm_alt(got.altloc_id.tolist()), _norm_alt(alt_last), "altloc_policy_selects_matching_rows", f"{route}: altloc_id of model {mk} (ids differ between models)")
                    got = pdbx.get_structure(f4, model=mk, altloc="occupancy", extra_fields=list(req))
                    if not check_occupancy_rows(o, got, w, f"{route}/model={mk}/altloc=occupancy (per-model ids)", readings_last, model=m - 1):
                        o.fail("altloc_policy_selects_matching_rows", f"{route}: model={mk}, occupancies of the last model {occ_last}, ids {alt_last}")
                got = pdbx.get_structure(f4, model=1, altloc="occupancy", extra_fields=list(req))
                if not check_occupancy_rows(o, got, w, f"{route}/model=1/altloc=occupancy (per-model ids)", readings, model=0):
                    o.fail("altloc_policy_selects_matching_rows", f"{route}: model=1 of a file whose last model has other ids")
        for policy in ("first", "occupancy", "all"):
            same_decoded(o, decoded[("cif_ser", policy)], decoded[("bcif", policy)], f"altloc={policy}: cif vs bcif")
    return o


# --------------------------------------------------------------------------
# enumeration: every bond type, intra- and inter-residue, text and binary
# --------------------------------------------------------------------------
def enum_bond_types(tier):
    for placement in ("intra", "inter"):
        for t in ALL_TYPES:
            for kind in ("cif", "bcif"):
                for known in (False, True):
                    yield {"placement": placement, "type": t, "kind": kind, "ccd_residue": known}


def run_bond_type(case):
    from biotite.structure.io import pdbx

    o = Outcome()
    t = case["type"]
    if case["ccd_residue"]:
        # residue known to the CCD but without bond records / ligand atoms not bonded in the CCD
        r1 = {"chain": "A", "res_id": 1, "ins": "", "name": "XYZ", "hetero": True, "atoms": [["X1", "C"], ["X2", "N"]]}
        r2 = {"chain": "A", "res_id": 2, "ins": "", "name": "ZN", "hetero": True, "atoms": [["ZN", "ZN"]]}
    else:
        r1 = {"chain": "A", "res_id": 1, "ins": "", "name": "UNX", "hetero": True, "atoms": [["C1'", "C"], ["N*", "N"]]}
        r2 = {"chain": "B", "res_id": 7, "ins": "C", "name": "UNY", "hetero": False, "atoms": [["O", "O"]]}
    bonds = [[0, 1, t]] if case["placement"] == "intra" else [[0, 1, BT_DOUBLE], [1, 2, t]]
    sc = {"residues": [r1, r2], "models": 0, "coord_seed": 1, "coord_mode": "pdb", "bonds": bonds}
    o.label(case["placement"] + "_" + BT_NAMES[t])
    o.mark_nontrivial(True)
    fl = flatten(sc)
    w = want_from_case(sc, fl)
    with warnings.catch_warnings():
        warnings.simplefilter("ignore")
        arr = build_array(sc, fl)
        f = write_file(arr, case["kind"], True, [])
        f2 = through_route(f, "cif_ser" if case["kind"] == "cif" else "bcif")
        got = pdbx.get_structure(f2, model=1, include_bonds=True)
    compare_atoms(o, got, w, case["kind"], fields=False)
    gb = got_bonds(got)
    wb = bond_dict(bonds)
    o.check(set(gb) == set(wb), "same_typed_bonds", lambda: f"bonded pairs {sorted(gb)} want {sorted(wb)}")
    for k in wb:
        if k in gb:
            o.check(gb[k] == wb[k], "bond_types_equal",
                    lambda: f"{case['placement']}-residue bond {BT_NAMES[wb[k]]} read back as {BT_NAMES[gb[k]]}")
    return o


# --------------------------------------------------------------------------
# declarations
# --------------------------------------------------------------------------
def _st_roundtrip(tier):
    return st_structure(tier, question_mark=True)


def _st_models(tier):
    return st_structure(tier, models=st.sampled_from([1, 2, 2, 3, 3, 4] if tier == "quick" else [1, 2, 2, 3, 4, 5, 6]), small=True)


# --------------------------------------------------------------------------
# large structures with many struct_conn rows (the matcher of inter-residue bonds switches its
# algorithm with the product rows x atoms)
# --------------------------------------------------------------------------
def st_large_conn(tier):
    sizes = [(300, 200), (700, 900), (1200, 1000), (1500, 1300), (1800, 1200), (2000, 1900), (2400, 2300)]
    if tier == "thorough":
        sizes += [(3000, 1300), (1100, 3500), (4000, 2500)]
    return st.fixed_dictionaries(
        {
            "size": st.sampled_from(sizes),
            "jitter": st.tuples(st.integers(0, 150), st.integers(0, 150)),
            "seed": st.integers(0, 2**31 - 1),
            "kind": st.sampled_from(["bcif", "bcif", "cif"]),
            "models": st.sampled_from([0, 0, 2]),
        }
    )


def run_large_conn(case):
    import biotite.structure as struc
    from biotite.structure.io import pdbx

    o = Outcome()
    n = case["size"][0] + case["jitter"][0]
    nb = case["size"][1] + case["jitter"][1]
    rng = np.random.default_rng(case["seed"])
    arr = struc.AtomArray(n)
    arr.coord = rng.uniform(-50, 50, size=(n, 3)).astype(np.float32)
    arr.chain_id[:] = "A"
    arr.res_id[:] = np.arange(1, n + 1)
    # residue names unknown to the component dictionary: no bond is added or left out on their account
    arr.res_name[:] = "UNL"
    arr.atom_name[:] = "X1"
    arr.element[:] = "C"
    arr.hetero[:] = True
    pairs = set()
    while len(pairs) < nb:
        i, j = (int(v) for v in rng.integers(0, n, size=2))
        if i != j:
            pairs.add((min(i, j), max(i, j)))
    pairs = sorted(pairs)
    # types struct_conn carries faithfully (open finding C04-F1: other orders come back as SINGLE)
    types = rng.choice([int(struc.BondType.SINGLE), int(struc.BondType.COORDINATION)], size=len(pairs))
    want = {p: int(t) for p, t in zip(pairs, types)}
    arr.bonds = struc.BondList(n, np.array([[i, j, t] for (i, j), t in want.items()], dtype=np.int64))
    m = case["models"]
    obj = arr if m == 0 else struc.stack([arr] * m)
    product = nb * n
    o.label("rows_x_atoms<1e6" if product < 1_000_000 else ("rows_x_atoms_1e6..4e6" if product <= 4_000_000 else "rows_x_atoms>4e6"))
    o.label("kind=" + case["kind"], "stack" if m else "array")
    with warnings.catch_warnings():
        warnings.simplefilter("ignore")
        f = pdbx.CIFFile() if case["kind"] == "cif" else pdbx.BinaryCIFFile()
        pdbx.set_structure(f, obj, include_bonds=True)
        f2 = through_route(f, "cif_ser" if case["kind"] == "cif" else "bcif")
        got = pdbx.get_structure(f2, model=None if m else 1, include_bonds=True)
    o.check_eq(got.array_length(), n, "same_atoms_same_order", "number of atoms")
    if o.check(got.bonds is not None, "same_typed_bonds", "no BondList"):
        gb = got_bonds(got)
        if gb != want:
            missing = sorted(set(want) - set(gb))[:5]
            extra = sorted(set(gb) - set(want))[:5]
            wrong = [(k, gb[k], want[k]) for k in sorted(set(gb) & set(want)) if gb[k] != want[k]][:5]
            o.fail("same_typed_bonds", f"{n} atoms, {nb} inter-residue bonds: missing {missing}, invented {extra}, wrong type {wrong}")
    o.mark_nontrivial()
    return o


# --------------------------------------------------------------------------
# two structures in two named data blocks of one file (data_block= of set/get_structure)
# --------------------------------------------------------------------------
def st_two_blocks(tier):
    @st.composite
    def gen(draw):
        # bonds in half of the files: struct_conn / chem_comp_bond have to land in the block of their structure
        with_bonds = draw(st.booleans())
        a = draw(st_structure(tier, small=True, allow_bonds=with_bonds, models=st.sampled_from([0, 0, 2])))
        b = draw(st_structure(tier, small=True, allow_bonds=with_bonds, models=st.sampled_from([0, 0, 2])))
        return {
            "first": a, "second": b,
            "names": draw(st.sampled_from([["first", "second"], ["A", "B"], ["x1", "structure_2"]])),
            "kind": draw(st.sampled_from(["cif", "bcif"])),
            "preexisting": draw(st.booleans()),
        }

    return gen()


def run_two_blocks(case):
    from biotite.structure.io import pdbx

    o = Outcome()
    parts = []
    for key in ("first", "second"):
        c = case[key]
        fl = flatten(c)
        spans = residue_spans(fl)
        keys = [(fl["chain_id"][s], fl["res_id"][s], fl["ins_code"][s], fl["res_name"][s]) for s, _ in spans]
        if len(set(keys)) != len(keys) or len(spans) != len(c["residues"]):
            o.invalid = True
            return o
        for fid in c.get("narrowed", []):
            o.exclude(fid)
        spec = None
        if c.get("bonds") is not None:
            spec = expected_bonds(o, c, fl, spans, c["write_intra"])
            if spec is None:
                o.invalid = True
                return o
        parts.append((c, fl, want_from_case(c, fl), spec, c.get("bonds") is not None and ambiguous_residue_class(fl, spans)))
    o.label("with_bonds" if any(p[3] is not None for p in parts) else "without_bonds")
    n1, n2 = case["names"]
    with warnings.catch_warnings():
        warnings.simplefilter("ignore")
        f = pdbx.CIFFile() if case["kind"] == "cif" else pdbx.BinaryCIFFile()
        if case["preexisting"]:
            f["other"] = pdbx.CIFBlock() if case["kind"] == "cif" else pdbx.BinaryCIFBlock()
            o.label("file_had_a_block_before")
        for name, (c, fl, w, spec, _) in zip((n1, n2), parts):
            pdbx.set_structure(f, build_array(c, fl), data_block=name, extra_fields=list(w["extra"]),
                               include_bonds=bool(c.get("write_intra")) and spec is not None)
        want_names = (["other"] if case["preexisting"] else []) + [n1, n2]
        o.check_eq(list(f.keys()), want_names, "data_block_selects_the_block", "block names after two set_structure(data_block=...) calls")
        f2 = through_route(f, "cif_ser" if case["kind"] == "cif" else "bcif")
        for name, (c, fl, w, spec, disclaimed) in zip((n1, n2), parts):
            if name not in f2.keys():
                o.fail("data_block_selects_the_block", f"block {name!r} missing after the round trip: {list(f2.keys())}")
                continue
            m = c["models"]
            got, bonds_read = read_structure(o, f2, disclaimed, name, model=None if m > 0 else 1, data_block=name,
                                             extra_fields=list(extra_field_request(w)), include_bonds=spec is not None)
            compare_atoms(o, got, w, f"data_block={name}")
            if spec is not None and bonds_read:
                if o.check(got.bonds is not None, "same_typed_bonds", f"data_block={name}: no BondList"):
                    check_bonds(o, f"data_block={name}", got_bonds(got), spec)
            elif spec is None:
                o.check(got.bonds is None, "same_typed_bonds", f"data_block={name}: bonds appeared")
    o.label("kind=" + case["kind"])
    o.mark_nontrivial()
    return o


SUBS = [
    Sub(
        "two_blocks",
        st_two_blocks,
        run_two_blocks,
        quick=300,
        thorough=10000,
        rule="two structures written into two named data blocks of one file",
        clauses="set_structure(data_block=...) / get_structure(data_block=...) address exactly the named block",
    ),
    Sub(
        "large_struct_conn",
        st_large_conn,
        run_large_conn,
        quick=40,
        thorough=600,
        rule="300..2500 single-atom residues with 200..2500 random inter-residue bonds (rows x atoms below 1e6, between 1e6 and 4e6, above 4e6)",
        clauses="same set of typed bonds for large struct_conn tables (both matching algorithms)",
    ),
    Sub(
        "roundtrip",
        _st_roundtrip,
        run_roundtrip,
        quick=1200,
        thorough=60000,
        rule=">= 2 residues and (>= 1 inter-residue bond or >= 2 models or a quote/prime in a name)",
        clauses="same atoms/order, annotations, bit-identical coordinates (tolerance after compress), optional and "
        "extra fields, typed bond set, equivalent box; text == binary; CIF via serialize and via StringIO",
    ),
    Sub(
        "models",
        _st_models,
        run_models,
        quick=420,
        thorough=20000,
        rule="stack with >= 2 models",
        clauses="model=k selects exactly model k, negative k counts from the end, 0 and non-existent models raise",
    ),
    Sub(
        "altloc",
        st_altloc,
        run_altloc,
        quick=640,
        thorough=25000,
        rule=">= 1 residue with two different letter alt-loc ids",
        clauses="altloc first / occupancy / all select exactly the rows of the reference filter",
    ),
]

ENUMS = [
    Enum(
        "bond_type_matrix",
        enum_bond_types,
        run_bond_type,
        rule="every BondType x {intra, inter} x {CIF, BinaryCIF} x {residue unknown/known to the CCD}",
        clauses="each bond type is written and read back with its type",
        exhaustive=True,
    )
]


# --------------------------------------------------------------------------
# open findings
# --------------------------------------------------------------------------
def _f1_inter_type_not_read_back(sub, case, clause, message):
    return (
        sub == "bond_type_matrix"
        and clause == "bond_types_equal"
        and case["placement"] == "inter"
        and case["type"] not in INTER_FAITHFUL
        and "inter-residue bond" in message
        and "read back as SINGLE" in message
    )


def _f2_intra_coordination_keyerror(sub, case, clause, message):
    return (
        sub == "bond_type_matrix"
        and clause == "unexpected_exception"
        and case["placement"] == "intra"
        and case["type"] == BT_COORD
        and message.startswith("KeyError")
    )


FINDINGS = {
    "inter_residue_bond_type_not_read_back": _f1_inter_type_not_read_back,
    "intra_residue_coordination_keyerror": _f2_intra_coordination_keyerror,
}
