"""
C19  Trees contain every taxon once and keep distances through Newick.

Oracles (all written out here, nothing taken from biotite):

* a *model tree* is the nested plain-data spec of the case: a leaf is an int
  (its reference index), an inner node a list of ``[child_spec, distance]``.
  Topology = nested frozensets of leaf indices; a leaf-to-leaf distance is the
  explicit sum (float64) of the branch lengths on the two paths to the deepest
  common ancestor found by intersecting the two ancestor paths.
* UPGMA: node height = distance to the leaves below it (all equal), and it must
  be half the mean of ``D[a, b]`` over a in left cluster, b in right cluster,
  recomputed from the *input* matrix.
* NJ: additive matrices are computed in ``run`` from a weighted unrooted tree
  stored in the case; the returned tree must reproduce every ``d(i, j)``.

Float policy: branch lengths are float32 inside ``TreeNode``.  Sums of E
branches done in float32 (``distance_to``) differ from the float64 sum by at
most ``E * 2**-23 * sum(|b|)`` (standard recursive-summation bound, doubled).
``to_newick(round_distance=None)`` must print a text that identifies the float32
(today: the repr of the float32 widened to double): equality is demanded at
float32 level, for the text and after parsing.
``round_distance=k`` may move each branch by 0.5 * 10**-k (+ one float32 ulp); the
written value must be a multiple of 10**-k (the form of the text is free).
UPGMA / NJ work in float32 on at most 12 taxa: 64 * eps32 * (largest matrix entry
among the leaves of the node) for UPGMA heights, (64 + 4 n) * eps32 * max(D) for NJ path lengths
(>= 30 x the measured worst error for n = 4..60; DESIGN C19 allowed 1e-4 * max(D)).
"""

import itertools
import math
import re

import numpy as np
from hypothesis import strategies as st

from vlib import Enum, Outcome, Sub, findings

PROPERTY = "C19"
RULE = (
    "distance matrices n=2..12 (int / float / constant / ultrametric / additive, ties and zeros) for "
    "upgma and neighbor_joining; weighted unrooted trees (4..12 taxa, 1 in 12 with 13..32, thorough ..60) -> additive "
    "matrices for NJ recovery; random rooted "
    "trees (1..5 children, depth <= 8, float32 branch lengths, permuted leaf indices, labels) for Newick / "
    "copy / as_binary / distance queries.  Non-trivial: UPGMA n >= 5 with a tie in some merge step; "
    "NJ n >= 5; trees with >= 3 leaves and a non-binary node"
)

EPS32 = 2.0**-23
TINY = 1e-44
F_AS_BINARY_NODE = "C19-F1"

MAX_ARITY = 5
MAX_DEPTH = 8


def f32(x):
    return float(np.float32(x))


# --------------------------------------------------------------------------
# model tree (built from the plain-data spec only)
# --------------------------------------------------------------------------
class MNode:
    __slots__ = ("index", "children", "parent", "dist", "depth", "pos", "leafset")

    def __init__(self):
        self.index = None
        self.children = []
        self.parent = None
        self.dist = None
        self.depth = 0
        self.pos = -1
        self.leafset = None


def build_model(spec):
    """-> (root, nodes in preorder)."""
    nodes = []

    def rec(s, parent, dist, depth):
        m = MNode()
        m.parent, m.dist, m.depth, m.pos = parent, dist, depth, len(nodes)
        nodes.append(m)
        if isinstance(s, int):
            m.index = s
            m.leafset = frozenset([s])
        else:
            for child_spec, d in s:
                m.children.append(rec(child_spec, m, float(d), depth + 1))
            m.leafset = frozenset().union(*[c.leafset for c in m.children])
        return m

    root = rec(spec, None, None, 0)
    return root, nodes


def build_biotite(spec):
    """-> (root TreeNode, TreeNodes in the same preorder as build_model).

    Uses only the public constructors: leaves first, then parents."""
    from biotite.sequence.phylo import TreeNode

    nodes = []

    def rec(s):
        slot = len(nodes)
        nodes.append(None)
        if isinstance(s, int):
            node = TreeNode(index=s)
        else:
            children = [rec(cs) for cs, _ in s]
            node = TreeNode(children, [float(d) for _, d in s])
        nodes[slot] = node
        return node

    root = rec(spec)
    return root, nodes


def model_topo(m, with_dist):
    if m.index is not None:
        return m.index
    if with_dist:
        return frozenset((model_topo(c, True), c.dist) for c in m.children)
    return frozenset(model_topo(c, False) for c in m.children)


def bio_topo(node, with_dist):
    """Nested frozensets read through the public attributes of a TreeNode."""
    if node.is_leaf():
        return node.index
    if with_dist:
        return frozenset((bio_topo(c, True), c.distance) for c in node.children)
    return frozenset(bio_topo(c, False) for c in node.children)


def path_to_root(m):
    out = []
    while m is not None:
        out.append(m)
        m = m.parent
    return out


def model_lca(a, b):
    pa, pb = path_to_root(a), path_to_root(b)
    common = {id(x) for x in pa} & {id(x) for x in pb}
    best = None
    for x in pa:
        if id(x) in common and (best is None or x.depth > best.depth):
            best = x
    return best


def model_distance(a, b):
    """-> (float64 path sum, number of edges, sum of |branch|)."""
    lca = model_lca(a, b)
    terms = []
    for start in (a, b):
        x = start
        while x is not lca:
            terms.append(x.dist)
            x = x.parent
    return math.fsum(terms), len(terms), math.fsum(abs(t) for t in terms)


def sum_tol(edges, abs_sum, factor=1):
    return factor * max(edges, 1) * EPS32 * abs_sum + TINY


def compare_subtree(o, m, node, clause, edge_tol, what):
    """Recursive comparison of a biotite (sub)tree with the model, children
    matched by their leaf-index topology (order of children is not demanded).
    edge_tol(d) -> allowed |difference| of one branch length (0 -> exact)."""
    if m.index is not None:
        if not o.check(node.is_leaf() and node.index == m.index, clause, lambda: f"{what}: leaf {m.index} became {_describe(node)}"):
            return False
        return True
    if not o.check(not node.is_leaf(), clause, lambda: f"{what}: inner node {sorted(m.leafset)} became leaf {node.index}"):
        return False
    by_topo = {}
    for c in node.children:
        by_topo[bio_topo(c, False)] = c
    want = {model_topo(c, False): c for c in m.children}
    if not o.check(
        set(by_topo) == set(want) and len(node.children) == len(m.children),
        clause,
        lambda: f"{what}: children of node over leaves {sorted(m.leafset)} differ: got {_fmt(set(by_topo))} want {_fmt(set(want))}",
    ):
        return False
    ok = True
    for key, mc in want.items():
        bc = by_topo[key]
        tol = edge_tol(mc.dist)
        d = bc.distance
        good = d is not None and (d == mc.dist if tol == 0 else abs(d - mc.dist) <= tol)
        if not o.check(good, clause, lambda: f"{what}: branch above {sorted(mc.leafset)}: got {d!r} want {mc.dist!r} (tol {tol:g})"):
            ok = False
        ok = compare_subtree(o, mc, bc, clause, edge_tol, what) and ok
    return ok


def _describe(node):
    return f"leaf {node.index}" if node.is_leaf() else f"inner node with {len(node.children)} children"


def _fmt(x):
    return repr(x)[:300]


def bio_nodes(root):
    out = []
    stack = [root]
    while stack:
        x = stack.pop()
        out.append(x)
        if not x.is_leaf():
            stack.extend(x.children)
    return out


def bio_leaf_paths(root):
    """{leaf index: [(node id, branch length above node), ...] from leaf up to below root}
    read through .children / .distance only; raises ValueError on duplicate index."""
    out = {}

    def rec(node, path):
        if node.is_leaf():
            if node.index in out:
                raise ValueError(f"leaf index {node.index} occurs twice")
            out[node.index] = list(reversed(path))
            return
        for c in node.children:
            rec(c, path + [(id(c), c.distance)])

    rec(root, [])
    return out


def bio_pair_distance(paths, i, j):
    """float64 leaf-to-leaf path sum from per-leaf paths (explicit path sums)."""
    pi, pj = paths[i], paths[j]
    ids_j = {nid for nid, _ in pj}
    ids_i = {nid for nid, _ in pi}
    terms = [d for nid, d in pi if nid not in ids_j] + [d for nid, d in pj if nid not in ids_i]
    return math.fsum(terms), len(terms)


def check_leaves(o, tree, n, clause):
    """every index 0..n-1 is exactly one leaf; Tree.leaves is indexed by reference index."""
    from biotite.sequence.phylo import Tree

    if not o.check(isinstance(tree, Tree), clause, lambda: f"a {type(tree).__name__} was returned instead of a Tree"):
        return False
    leaves_seen = sorted(x.index for x in bio_nodes(tree.root) if x.is_leaf())
    ok = o.check_eq(leaves_seen, list(range(n)), clause, "leaf indices found by walking the tree")
    ok = o.check_eq(len(tree), n, clause, "len(tree)") and ok
    lv = tree.leaves
    ok = o.check_eq(len(lv), n, clause, "len(tree.leaves)") and ok
    if ok:
        ok = o.check(
            all(x is not None and x.is_leaf() and x.index == i for i, x in enumerate(lv)),
            clause,
            lambda: f"tree.leaves[i].index != i: {[None if x is None else x.index for x in lv]}",
        )
    return ok


# --------------------------------------------------------------------------
# independent Newick reader (used on what the writer emits)
# --------------------------------------------------------------------------
class NewickSyntax(Exception):
    pass


def parse_newick(text):
    """-> nested ('leaf', name, dist_text|None) / ('node', [children], name, dist_text|None).
    Whitespace anywhere in the text is dropped first (Newick allows it between tokens, biotite's reader
    removes it, and the generated labels contain none); terminal ';' required, nothing after it."""
    text = "".join(text.split())
    pos = 0
    stop = set("(),:;")

    def name_and_dist():
        nonlocal pos
        start = pos
        while pos < len(text) and text[pos] not in stop:
            pos += 1
        name = text[start:pos]
        dist = None
        if pos < len(text) and text[pos] == ":":
            pos += 1
            start = pos
            while pos < len(text) and text[pos] not in stop:
                pos += 1
            dist = text[start:pos]
        return name, dist

    def subtree():
        nonlocal pos
        if pos < len(text) and text[pos] == "(":
            pos += 1
            children = [subtree()]
            while pos < len(text) and text[pos] == ",":
                pos += 1
                children.append(subtree())
            if pos >= len(text) or text[pos] != ")":
                raise NewickSyntax(f"expected ')' at {pos} in {text!r}")
            pos += 1
            name, dist = name_and_dist()
            return ("node", children, name, dist)
        name, dist = name_and_dist()
        return ("leaf", name, dist)

    t = subtree()
    if pos != len(text) - 1 or text[pos] != ";":
        raise NewickSyntax(f"expected terminal ';' at {pos} in {text!r}")
    return t


def parsed_topo(p, name_to_index, dist_of):
    """nested frozensets of a parse result; dist_of(text) -> value put next to each child (or None to omit)."""
    if p[0] == "leaf":
        return name_to_index(p[1])
    items = []
    for c in p[1]:
        t = parsed_topo(c, name_to_index, dist_of)
        if dist_of is None:
            items.append(t)
        else:
            items.append((t, dist_of(c[-1])))
    return frozenset(items)


def parsed_has_dist(p):
    """(any distance text present below the root, any missing below the root)"""
    present = missing = False
    stack = [(p, True)]
    while stack:
        x, is_root = stack.pop()
        if not is_root:
            if x[-1] is None:
                missing = True
            else:
                present = True
        if x[0] == "node":
            stack.extend((c, False) for c in x[1])
    return present, missing


WS_CHOICES = ["", " ", "\n", "\t", "  ", " \n ", "\r\n", "\t "]


def insert_whitespace(newick, ws):
    """blanks / newlines between the tokens of a Newick string (never inside a label or number)."""
    tokens = [t for t in re.split(r"([(),:;])", newick) if t != ""]
    out = []
    k = 0
    for t in tokens:
        out.append(WS_CHOICES[ws[k % len(ws)] % len(WS_CHOICES)])
        k += 1
        out.append(t)
    out.append(WS_CHOICES[ws[k % len(ws)] % len(WS_CHOICES)])
    return "".join(out)


# --------------------------------------------------------------------------
# strategies: rooted trees
# --------------------------------------------------------------------------
SPECIAL_DIST = [0.0, 0.0, 1.0, 0.5, 2.0, 3.0, f32(0.1), f32(1e-7), f32(1e-30), f32(1e30), f32(123456.789), 16777216.0, f32(1e-5), f32(2.5e-4)]
# no '_' (a blank in unquoted standard Newick), no blanks, no Newick metacharacters, no quotes / brackets
LABEL_ALPHABET = "abcxyzABC0123456789-.+*/|#=%!?<>{}~^&@$äßλ日"


def branch_from_raw(r):
    """float32-representable branch length from one drawn integer (cheap to generate, shrinks to 0.0)."""
    cat, payload = r & 7, r >> 3
    if cat == 0:
        return SPECIAL_DIST[payload % len(SPECIAL_DIST)]
    if cat == 1:
        return float(payload % 10)
    if cat in (2, 3, 4):
        return f32((payload % 1000000) / 1000.0)
    if cat == 5:
        return f32((payload % 2**24) * 2.0**-24)
    if cat == 6:
        return float(payload % 2**20)
    v = f32((payload % 10000) / 1000.0)
    return -v if (payload >> 20) & 3 == 0 else v


def st_branches(k):
    return st.lists(st.integers(0, 2**31 - 1), min_size=k, max_size=k).map(lambda rs: [branch_from_raw(r) for r in rs])


def labels_from_raws(raws):
    """unique labels without Newick metacharacters or blanks"""
    out = []
    seen = set()
    base = len(LABEL_ALPHABET)
    for pos, r in enumerate(raws):
        txt = ""
        r += 1
        while r > 0:
            txt += LABEL_ALPHABET[r % base]
            r //= base
        while txt in seen:
            txt += LABEL_ALPHABET[pos % base]
            pos += 7
        seen.add(txt)
        out.append(txt)
    return out


def shape_from_raws(raws, window):
    """parent array of a rooted tree with arity <= 5 and depth <= 8 built by attaching node after node."""
    parent = [None]
    depth = [0]
    nchild = [0]
    for r in raws:
        cands = [i for i in range(len(parent)) if nchild[i] < MAX_ARITY and depth[i] < MAX_DEPTH]
        if not cands:
            break
        w = min(window, len(cands))
        p = cands[len(cands) - 1 - (r % w)]
        parent.append(p)
        depth.append(depth[p] + 1)
        nchild.append(0)
        nchild[p] += 1
    return parent


def spec_from_parents(parent, dists, leaf_index):
    children = [[] for _ in parent]
    for i, p in enumerate(parent):
        if p is not None:
            children[p].append(i)
    counter = itertools.count()

    def rec(i):
        if not children[i]:
            return leaf_index[next(counter)]
        return [[rec(c), dists[c - 1]] for c in children[i]]

    return rec(0)


def shape_binary(raws):
    """parent array of a rooted tree in which every inner node has exactly two children (depth <= 8)."""
    parent = [None]
    depth = [0]
    leaves = [0]
    for r in raws:
        cands = [i for i in leaves if depth[i] < MAX_DEPTH]
        if not cands:
            break
        p = cands[r % len(cands)]
        leaves.remove(p)
        for _ in range(2):
            parent.append(p)
            depth.append(depth[p] + 1)
            leaves.append(len(parent) - 1)
    return parent


def st_tree_case(tier):
    max_nodes = 36 if tier == "quick" else 90

    @st.composite
    def gen(draw):
        m = draw(st.one_of(st.integers(2, 12), st.integers(1, max_nodes), st.integers(8, max_nodes)))
        window = draw(st.sampled_from([0, 1, 2, 3, 6, 10**6, 10**6, 10**6]))
        raws = draw(st.lists(st.integers(0, 10**6), min_size=m - 1, max_size=m - 1))
        if window == 0:
            parent = shape_binary(raws[: max(1, (m - 1) // 2)])
        else:
            parent = shape_from_raws(raws, window)
        m = len(parent)
        zero_heavy = draw(st.integers(0, 7)) == 0
        if zero_heavy:
            dists = draw(st.lists(st.sampled_from([0.0, 0.0, 1.0]), min_size=m - 1, max_size=m - 1))
        else:
            dists = draw(st_branches(m - 1))
            if draw(st.integers(0, 3)) != 0:
                dists = [abs(x) for x in dists]  # negative branch lengths only in a quarter of the cases
        has_child = set(p for p in parent if p is not None)
        n_leaves = m - len(has_child)
        perm = draw(st.permutations(list(range(n_leaves))))
        spec = spec_from_parents(parent, dists, perm)
        extra = draw(st.integers(0, 2))
        labels = labels_from_raws(draw(st.lists(st.integers(0, 46**4), min_size=n_leaves + extra, max_size=n_leaves + extra)))
        ws = [draw(st.integers(1, len(WS_CHOICES) - 1))] + draw(st.lists(st.integers(0, len(WS_CHOICES) - 1), min_size=2, max_size=11))
        flat = draw(st.lists(st.integers(0, 10**4), min_size=8, max_size=48))
        pairs = list(zip(flat[0::2], flat[1::2]))
        case = {
            "tree": spec,
            "labels": labels,
            "ws": ws,
            "round": draw(st.integers(0, 8)),
            "pairs": [list(p) for p in pairs],
            # C19-F1 (open): as_binary(TreeNode) is not called while the finding is open
            "binary_node": not findings.is_open(F_AS_BINARY_NODE),
        }
        return case

    return gen()


# --------------------------------------------------------------------------
# strategies: matrices
# --------------------------------------------------------------------------
def unrooted_tree_edges(n, attach):
    """Unrooted binary tree on leaves 0..n-1 (inner nodes n, n+1, ...): leaf k >= 2 is hung into
    edge attach[k-2] % (current number of edges).  -> list of (u, v) in a fixed order (2n-3 edges)."""
    edges = [(0, 1)]
    nxt = n
    for k in range(2, n):
        e = attach[k - 2] % len(edges)
        u, v = edges[e]
        mid = nxt
        nxt += 1
        edges[e] = (u, mid)
        edges.append((mid, v))
        edges.append((mid, k))
    return edges


def additive_matrix(n, attach, weights, perm):
    """float64 path-length matrix of the weighted unrooted tree; leaf k is taxon perm[k]."""
    edges = unrooted_tree_edges(n, attach)
    total = 2 * n - 2 if n > 2 else 2
    adj = [[] for _ in range(max(total, n))]
    for (u, v), w in zip(edges, weights):
        adj[u].append((v, w))
        adj[v].append((u, w))
    d = np.zeros((n, n), dtype=np.float64)
    for s in range(n):
        dist = {s: 0.0}
        stack = [s]
        while stack:
            x = stack.pop()
            for y, w in adj[x]:
                if y not in dist:
                    dist[y] = dist[x] + w
                    stack.append(y)
        for t in range(n):
            d[perm[s], perm[t]] = dist[t]
    return d


def ultrametric_matrix(n, merges, incs):
    clusters = [[i] for i in range(n)]
    d = np.zeros((n, n), dtype=np.float64)
    h = 0.0
    for (ra, rb), inc in zip(merges, incs):
        h += inc
        a = ra % len(clusters)
        ca = clusters.pop(a)
        b = rb % len(clusters)
        cb = clusters.pop(b)
        for x in ca:
            for y in cb:
                d[x, y] = d[y, x] = 2 * h
        clusters.append(ca + cb)
    return d


SCALES = [1.0, 1.0, 1.0, 0.125, 1e-3, 1000.0, 1e6, 2.0**-20]


def st_weights(k, mode):
    """k edge weights.  small_int: 0..3 (zeros, ties); int: 1..10; float: generic positive; log: 1e-6..1 log-uniform;
    mixed: floats with zeros and repeated values."""
    if mode == "small_int":
        el = st.integers(0, 3).map(float)
    elif mode == "int":
        el = st.integers(1, 10).map(float)
    elif mode == "float":
        el = st.floats(min_value=0.01, max_value=10.0, allow_nan=False)
    elif mode == "log":
        el = st.floats(min_value=-6.0, max_value=0.0, allow_nan=False).map(lambda e: 10.0**e)
    else:
        el = st.one_of(st.floats(min_value=0.0, max_value=10.0, allow_nan=False), st.sampled_from([0.0, 1.0, 0.5]))
    return st.lists(el, min_size=k, max_size=k)


@st.composite
def st_additive_tree(draw, min_n, max_n, big_n=None, big_one_in=12):
    n = draw(st.integers(min_n, max_n))
    if big_n is not None and draw(st.integers(0, big_one_in - 1)) == 0:
        n = draw(st.integers(max_n + 1, big_n))
    attach = draw(st.lists(st.integers(0, 10**4), min_size=max(n - 2, 0), max_size=max(n - 2, 0)))
    mode = draw(st.sampled_from(["small_int", "int", "float", "float", "log", "mixed"]))
    scale = draw(st.sampled_from(SCALES))
    if mode in ("small_int", "int") and scale not in (1.0, 0.125, 2.0**-20):
        scale = 1.0  # keep every path sum exactly representable in float32
    weights = draw(st_weights(max(2 * n - 3, 1), mode))
    weights = [w * scale for w in weights]
    perm = draw(st.permutations(list(range(n))))
    return {
        "n": n,
        "attach": attach,
        "w": weights,
        "perm": list(perm),
        "dtype": draw(st.sampled_from(["float64", "float32", "float64"])),
        "layout": draw(st.sampled_from(["c", "c", "f", "strided"])),
    }


def st_matrix_case(tier, min_n):
    @st.composite
    def gen(draw):
        n = draw(st.integers(min_n, 12))
        kind = draw(st.sampled_from(["int", "int", "int", "float", "float", "logfloat", "logfloat", "const", "const", "ultra", "ultra", "ultra", "additive", "additive", "additive"]))
        scale = draw(st.sampled_from(SCALES))
        dtype = draw(st.sampled_from(["float64", "float32", "float64"]))
        if kind == "int":
            vmax = draw(st.sampled_from([1, 2, 3, 5, 20, 100]))
            vals = draw(st.lists(st.integers(0, vmax), min_size=n * (n - 1) // 2, max_size=n * (n - 1) // 2))
            d = np.zeros((n, n))
            d[np.triu_indices(n, 1)] = vals
            d = d + d.T
            if draw(st.booleans()):
                dtype = "int64"
            else:
                d = d * scale
        elif kind == "logfloat":
            vals = draw(
                st.lists(st.floats(min_value=-6.0, max_value=0.0, allow_nan=False), min_size=n * (n - 1) // 2, max_size=n * (n - 1) // 2)
            )
            d = np.zeros((n, n))
            d[np.triu_indices(n, 1)] = [10.0**e for e in vals]
            d = (d + d.T) * scale
        elif kind == "float":
            vals = draw(
                st.lists(st.floats(min_value=0.0, max_value=1.0, allow_nan=False), min_size=n * (n - 1) // 2, max_size=n * (n - 1) // 2)
            )
            d = np.zeros((n, n))
            d[np.triu_indices(n, 1)] = vals
            d = (d + d.T) * scale
        elif kind == "const":
            c = draw(st.one_of(st.sampled_from([0.0, 1.0, 7.0, 0.1]), st.integers(0, 4000).map(lambda v: v / 8.0)))
            d = np.full((n, n), c * scale)
            np.fill_diagonal(d, 0.0)
        elif kind == "ultra":
            merges = draw(st.lists(st.tuples(st.integers(0, 100), st.integers(0, 100)), min_size=n - 1, max_size=n - 1))
            if draw(st.booleans()):
                incs = [float(x) for x in draw(st.lists(st.integers(0, 3), min_size=n - 1, max_size=n - 1))]
            else:
                incs = draw(st.lists(st.floats(min_value=0.0, max_value=1.0, allow_nan=False), min_size=n - 1, max_size=n - 1))
            d = ultrametric_matrix(n, merges, incs) * scale
        else:
            t = draw(st_additive_tree(n, n))
            d = additive_matrix(n, t["attach"], t["w"], t["perm"])
        layout = draw(st.sampled_from(["c", "c", "f", "strided"]))
        return {"n": n, "d": d.tolist(), "dtype": dtype, "kind": kind, "layout": layout}

    return gen()


def st_upgma(tier):
    return st_matrix_case(tier, 2)


def st_nj_any(tier):
    return st_matrix_case(tier, 4)


def st_nj_additive(tier):
    # mostly 4..12 taxa; some larger ones so that "any additive matrix" is not decided for n <= 12 only
    if tier == "quick":
        return st_additive_tree(4, 12, big_n=32, big_one_in=12)
    return st_additive_tree(4, 12, big_n=60, big_one_in=6)


# --------------------------------------------------------------------------
# run: clustering
# --------------------------------------------------------------------------
def _layout(arr, layout):
    """the same values in another memory layout: Fortran order or a strided view into a larger block"""
    if layout == "f":
        return np.asfortranarray(arr)
    if layout == "strided":
        big = np.zeros((2 * arr.shape[0], 3 * arr.shape[1]), dtype=arr.dtype)
        big[::2, 1::3] = arr
        return big[::2, 1::3]
    return arr


def _matrix(case):
    d = np.array(case["d"], dtype=np.float64)
    if case["dtype"] == "int64":
        return _layout(d.astype(np.int64), case.get("layout", "c"))
    return _layout(d.astype(case["dtype"]), case.get("layout", "c"))


def _cluster_twice(o, fn, make):
    """fn is called twice (small matrices), each time with a freshly built argument; the tree that is examined
    is the one of the second call, so a result that depends on an earlier call (state kept between calls) shows
    up under the clause of the oracle that notices it.  Whether fn changes its argument is decided separately
    and under its own clause (beyond the statement: no docstring promises it, but silently overwriting the
    caller's array is not a change a maintainer would accept) - it can no longer disturb the other oracles.
    -> (tree, the argument of the examined call)"""
    dm = make()
    if dm.shape[0] <= 8:
        fn(make())
        o.label("called_twice")
    before = np.array(dm, dtype=np.float64)
    tree = fn(dm)
    o.check_array_eq(np.array(dm, dtype=np.float64), before, "matrix_argument_unchanged", f"distance matrix after {getattr(fn, '__name__', 'clustering')}()")
    return tree, dm


class CNode:
    """a node of a returned tree with everything the oracle needs, read through the public API"""

    __slots__ = ("node", "children", "leaves", "leaf_dists", "branch", "parent")

    def __init__(self, node, parent):
        self.node = node
        self.parent = parent
        self.branch = node.distance
        self.children = []
        if node.is_leaf():
            self.leaves = [node.index]
            self.leaf_dists = [0.0]
        else:
            self.leaves = []
            self.leaf_dists = []
            for c in node.children:
                cc = CNode(c, self)
                self.children.append(cc)
                self.leaves.extend(cc.leaves)
                self.leaf_dists.extend(x + cc.branch for x in cc.leaf_dists)

    def walk(self):
        yield self
        for c in self.children:
            yield from c.walk()


def reference_upgma_has_tie(d, tol):
    """Average-linkage agglomeration in float64 directly from the definition; True if at some step
    the minimum inter-cluster mean is attained (within tol) by more than one pair."""
    clusters = [[i] for i in range(len(d))]
    tie = False
    while len(clusters) > 1:
        best = None
        vals = []
        for a in range(len(clusters)):
            for b in range(a):
                v = float(np.mean(d[np.ix_(clusters[a], clusters[b])]))
                vals.append(v)
                if best is None or v < best[0]:
                    best = (v, a, b)
        if sum(1 for v in vals if v <= best[0] + tol) > 1:
            tie = True
        _, a, b = best
        merged = clusters[a] + clusters[b]
        clusters = [c for k, c in enumerate(clusters) if k not in (a, b)] + [merged]
    return tie


def run_upgma(case):
    from biotite.sequence.phylo import upgma

    o = Outcome()
    n = case["n"]
    tree, dm = _cluster_twice(o, upgma, lambda: _matrix(case))
    d = np.array(_matrix(case), dtype=np.float64)  # the values that were passed, not what the call left behind
    o.label(f"kind={case['kind']}", f"dtype={case['dtype']}", "n>=5" if n >= 5 else "n<5", "layout=" + case.get("layout", "c"))
    if not check_leaves(o, tree, n, "every_index_exactly_one_leaf"):
        return o
    scale = float(d.max()) if n > 1 else 0.0
    root = CNode(tree.root, None)
    inner = [c for c in root.walk() if c.children]
    o.check(all(len(c.children) == 2 for c in inner), "upgma_tree_is_binary", lambda: f"child counts {[len(c.children) for c in inner]}")
    if any(len(c.children) != 2 for c in inner):
        return o

    # Tolerances are local: the float32 running means and heights below a node only involve
    # matrix entries between leaves of that node, so their error is a few eps32 of the largest such
    # entry (measured: < 1 eps32; allowed: 64 eps32).
    def local_tol(leaves):
        return 64 * EPS32 * float(d[np.ix_(leaves, leaves)].max()) + TINY

    ref_height = {}
    tol_of = {}
    for c in root.walk():
        if not c.children:
            ref_height[id(c)] = 0.0
            tol_of[id(c)] = TINY
            continue
        tol = tol_of[id(c)] = local_tol(c.leaves)
        # ultrametric: every leaf below the node is equally far away
        lo, hi = min(c.leaf_dists), max(c.leaf_dists)
        o.check(hi - lo <= 2 * tol, "upgma_ultrametric", lambda: f"node over {sorted(c.leaves)}: leaf depths {lo!r} .. {hi!r} (tol {tol:g})")
        a, b = c.children
        mean = float(np.mean(d[np.ix_(a.leaves, b.leaves)]))
        ref_height[id(c)] = mean / 2
        got = (lo + hi) / 2
        o.check(
            abs(got - mean / 2) <= tol,
            "upgma_height_is_half_average_linkage",
            lambda: f"node {sorted(a.leaves)}+{sorted(b.leaves)}: height {got!r}, mean inter-cluster distance / 2 = {mean / 2!r} (tol {tol:g})",
        )
    zero_branch = False
    for c in root.walk():
        if c.parent is not None:
            tol = tol_of[id(c.parent)]
            o.check(c.branch >= -2 * tol, "upgma_ultrametric", lambda: f"negative branch {c.branch!r} above {sorted(c.leaves)}")
            if c.branch == 0:
                zero_branch = True
    # UPGMA joins the two closest clusters: a cluster C that certainly existed when A and B were
    # joined (created strictly earlier, consumed strictly later) is not closer to A or B than they
    # are to each other.
    allnodes = list(root.walk())
    for x in inner:
        a, b = x.children
        hx = ref_height[id(x)]
        dab = 2 * hx
        xs = set(x.leaves)
        for c in allnodes:
            if c.parent is None or xs & set(c.leaves):
                continue
            margin = 2 * (tol_of[id(x)] + tol_of[id(c.parent)])
            if ref_height[id(c)] < hx - margin and ref_height[id(c.parent)] > hx + margin:
                tol = local_tol(x.leaves + c.leaves)
                for side in (a, b):
                    v = float(np.mean(d[np.ix_(side.leaves, c.leaves)]))
                    o.check(
                        v >= dab - 4 * tol,
                        "upgma_joins_closest_clusters",
                        lambda: f"joined {sorted(a.leaves)}+{sorted(b.leaves)} at mean distance {dab!r} while {sorted(side.leaves)} and {sorted(c.leaves)} are at {v!r}",
                    )
    tie = reference_upgma_has_tie(d, 1e-9 * scale) if n >= 3 else False
    if tie:
        o.label("tie")
    if zero_branch:
        o.label("zero_branch")
    if scale == 0:
        o.label("all_zero")
    elif np.count_nonzero(d == 0) > n:
        o.label("zero_offdiag")
    o.mark_nontrivial(n >= 5 and tie)
    return o


def _check_nj_shape(o, root):
    inner = [c for c in root.walk() if c.children]
    counts = [len(c.children) for c in inner]
    o.check(
        len(root.children) == 3 and all(len(c.children) == 2 for c in inner if c is not root),
        "nj_binary_except_three_way_root",
        lambda: f"child counts (root first) {counts}",
    )


def run_nj_additive(case):
    from biotite.sequence.phylo import neighbor_joining

    o = Outcome()
    n = case["n"]
    d0 = additive_matrix(n, case["attach"], case["w"], case["perm"])
    tree, dm = _cluster_twice(o, neighbor_joining, lambda: _layout(d0.astype(case["dtype"]), case.get("layout", "c")))
    # the oracle works on the values that were passed (float32 input: the rounded ones), read before the call
    d = _layout(d0.astype(case["dtype"]), "c").astype(np.float64)
    o.label("layout=" + case.get("layout", "c"))
    scale = float(d.max())
    o.label(f"n={n}" if n < 6 else "n=6..12" if n <= 12 else "n>12", f"dtype={case['dtype']}")
    nz = sum(1 for w in case["w"][: 2 * n - 3] if w == 0)
    if nz:
        o.label("zero_edge")
    if scale == 0:
        o.label("all_zero")
    ws = sorted(case["w"][: 2 * n - 3])
    if len(set(ws)) < len(ws):
        o.label("equal_edges")
    if not check_leaves(o, tree, n, "every_index_exactly_one_leaf"):
        return o
    root = CNode(tree.root, None)
    _check_nj_shape(o, root)
    # float32 arithmetic inside NJ: measured worst error 1.6 (n=4) .. 2.4 (n=12) .. 6 (n=60) eps32 * max(D)
    tol = (64 + 4 * n) * EPS32 * scale + TINY
    paths = bio_leaf_paths(tree.root)
    worst = 0.0
    for i in range(n):
        for j in range(i):
            got, _ = bio_pair_distance(paths, i, j)
            dij = float(d[i, j])
            worst = max(worst, abs(got - dij))
            o.check(
                abs(got - dij) <= tol,
                "nj_reproduces_additive_distances",
                lambda: f"d({i},{j}) = {dij!r} but the tree path is {got!r} (tol {tol:g})",
            )
            api = tree.get_distance(i, j)
            o.check(
                abs(api - dij) <= 2 * tol,
                "nj_reproduces_additive_distances",
                lambda: f"d({i},{j}) = {dij!r} but get_distance gives {api!r} (tol {2 * tol:g})",
            )
    if scale > 0 and worst > 0.1 * tol:
        o.label("error>0.1tol")
    elif scale > 0 and worst > 0.01 * tol:
        o.label("error>0.01tol")
    o.mark_nontrivial(n >= 5 and scale > 0)
    return o


def run_nj_any(case):
    from biotite.sequence.phylo import neighbor_joining

    o = Outcome()
    n = case["n"]
    tree, dm = _cluster_twice(o, neighbor_joining, lambda: _matrix(case))
    o.label(f"kind={case['kind']}", f"dtype={case['dtype']}", "layout=" + case.get("layout", "c"))
    if not check_leaves(o, tree, n, "every_index_exactly_one_leaf"):
        return o
    root = CNode(tree.root, None)
    _check_nj_shape(o, root)
    branches = [c.branch for c in root.walk() if c.parent is not None]
    o.check(all(math.isfinite(b) for b in branches), "nj_finite_branches", lambda: f"branches {branches}")
    if any(b < 0 for b in branches):
        o.label("negative_branch")
    if all(math.isfinite(b) for b in branches):
        _returned_tree_survives(o, tree, n)
    o.mark_nontrivial(n >= 5)
    return o


def _returned_tree_survives(o, tree, n):
    """A tree that biotite built itself (here: with the three-way NJ root) through Newick, copy and as_binary;
    the reference is the tree as read through the public attributes before."""
    from biotite.sequence.phylo import Tree, as_binary

    topo_d = bio_topo(tree.root, True)
    paths = bio_leaf_paths(tree.root)
    s = tree.to_newick()
    t2 = Tree.from_newick(s)
    if check_leaves(o, t2, n, "newick_roundtrip_keeps_topology_and_distances"):
        o.check(
            bio_topo(t2.root, True) == topo_d,
            "newick_roundtrip_keeps_topology_and_distances",
            lambda: f"tree returned by neighbor_joining: {s!r} read back as {t2.to_newick()!r}",
        )
    cp = tree.copy()
    if check_leaves(o, cp, n, "copy_keeps_topology_and_distances"):
        o.check(bio_topo(cp.root, True) == topo_d, "copy_keeps_topology_and_distances", lambda: f"copy of {s!r} is {cp.to_newick()!r}")
    bt = as_binary(tree)
    if check_leaves(o, bt, n, "as_binary_keeps_leaves"):
        o.check(all(x.is_leaf() or len(x.children) == 2 for x in bio_nodes(bt.root)), "as_binary_is_binary", lambda: f"{bt.to_newick(include_distance=False)}")
        bpaths = bio_leaf_paths(bt.root)
        for i, j in _leaf_pairs(n, cap=20):
            want, edges = bio_pair_distance(paths, i, j)
            got, _ = bio_pair_distance(bpaths, i, j)
            abs_sum = math.fsum(abs(d) for _, d in paths[i]) + math.fsum(abs(d) for _, d in paths[j])
            tol = sum_tol(edges, abs_sum, 2)
            o.check(
                abs(got - want) <= tol,
                "as_binary_keeps_leaf_distances",
                lambda: f"path {i}-{j}: {got!r} in the binary form of {s!r}, {want!r} before (tol {tol:g})",
            )


# --------------------------------------------------------------------------
# run: rooted trees - Newick, copy, as_binary
# --------------------------------------------------------------------------
def _tree_labels(o, nodes):
    inner = [m for m in nodes if m.index is None]
    n = sum(1 for m in nodes if m.index is not None)
    arities = [len(m.children) for m in inner]
    if any(a == 1 for a in arities):
        o.label("single_child_node")
    if any(a > 2 for a in arities):
        o.label("node_with>2_children")
    if arities and all(a == 2 for a in arities):
        o.label("binary")
    if any(m.dist == 0 for m in nodes if m.parent is not None):
        o.label("zero_distance")
    if any(m.dist is not None and m.dist < 0 for m in nodes):
        o.label("negative_distance")
    depth = max(m.depth for m in nodes)
    o.label("depth>=5" if depth >= 5 else "depth<5")
    o.label("leaves=1" if n == 1 else "leaves=2" if n == 2 else "leaves>=3")
    if nodes[0].children and len(nodes[0].children) == 1:
        o.label("single_child_root")
    return n, any(a != 2 for a in arities)


def _leaf_pairs(n, cap=45):
    pairs = [(i, j) for i in range(n) for j in range(i)]
    if len(pairs) <= cap:
        return pairs
    step = len(pairs) / cap
    return [pairs[int(k * step)] for k in range(cap)]


def _check_pair_distances(o, tree, leaf_of, pairs, clause, what, extra_tol=lambda e, s: 0.0, factor=1):
    """tree.get_distance(i, j) against the model path sums"""
    for i, j in pairs:
        want, edges, abs_sum = model_distance(leaf_of[i], leaf_of[j])
        tol = sum_tol(edges, abs_sum, factor) + extra_tol(edges, abs_sum)
        got = tree.get_distance(i, j)
        o.check(abs(got - want) <= tol, clause, lambda: f"{what}: get_distance({i},{j}) = {got!r}, path sum {want!r} (tol {tol:g})")


def run_tree_newick(case):
    from biotite.sequence.phylo import Tree, TreeNode, as_binary

    o = Outcome()
    spec = case["tree"]
    mroot, mnodes = build_model(spec)
    broot, bnodes = build_biotite(spec)
    tree = Tree(broot)
    n, nonbinary = _tree_labels(o, mnodes)
    leaf_of = {m.index: m for m in mnodes if m.index is not None}
    labels = case["labels"]
    if any(_looks_like_number(x) for x in labels[:n]):
        o.label("label_looks_like_number")
    ws = case["ws"]
    topo = model_topo(mroot, False)
    topo_d = model_topo(mroot, True)
    pairs = _leaf_pairs(n)
    exact = lambda d: 0.0  # noqa: E731

    if not check_leaves(o, tree, n, "tree_leaves_indexed_by_reference_index"):
        return o
    if not o.check(bio_topo(tree.root, True) == topo_d, "constructed_tree_matches_spec", "TreeNode/Tree constructors"):
        return o

    def name_int(name):
        return int(name)

    def name_label(name):
        return labels.index(name)

    def check_written(text, name_to_index, mode, what):
        """decide the writer alone with the independent reader"""
        try:
            p = parse_newick(text)
        except NewickSyntax as e:
            o.fail("newick_writer_emits_the_tree", f"{what}: {e}")
            return
        try:
            got_topo = parsed_topo(p, name_to_index, None)
        except ValueError as e:
            o.fail("newick_writer_emits_the_tree", f"{what}: leaf name not resolvable: {e} in {text!r}")
            return
        o.check(got_topo == topo, "newick_writer_emits_the_tree", lambda: f"{what}: topology of {text!r} is {_fmt(got_topo)}, want {_fmt(topo)}")
        present, missing = parsed_has_dist(p)
        if mode == "none":
            o.check(not present, "newick_writer_emits_the_tree", lambda: f"{what}: distances written although include_distance=False: {text!r}")
            return
        if not o.check(not missing, "newick_writer_emits_the_tree", lambda: f"{what}: a distance is missing in {text!r}"):
            return
        try:
            if mode == "exact":
                # The branch lengths are float32 values: the text must identify the float32 (which text is
                # chosen for it - repr of the widened double, the shortest text - is the writer's business).
                got = parsed_topo(p, name_to_index, _text_to_f32)
                o.check(got == topo_d, "newick_writer_emits_the_tree", lambda: f"{what}: distances in {text!r} differ from the tree's")
                texts = [t for _, _, t in _parsed_branches(p, name_to_index)]
                if any("e" in t.lower() for t in texts):
                    o.label("exponent_form_in_text")
                if any(float(t) != _text_to_f32(t) for t in texts):
                    o.label("written=shortest_float32_text")
            else:
                k = mode
                # compare branch by branch: multiset of (leaf set below, written value).  "Rounded to the given
                # number of digits" is decided on the value of the text, not on its form ('3', '3.0', '1e-07'
                # are all fine): the value is within half a unit of the k-th digit (+ a float32 ulp) of the
                # branch, and it is a multiple of 10**-k - as a double, or at least as a float32.
                written = _parsed_branches(p, name_to_index)
                wanted = sorted((sorted(m.leafset), m.depth, m.dist) for m in mnodes if m.parent is not None)
                written.sort()
                ok = len(written) == len(wanted)
                why = "other branches"
                level = set()
                if ok:
                    for (ls1, dep1, txt), (ls2, dep2, dv) in zip(written, wanted):
                        v = float(txt)
                        if ls1 != ls2 or dep1 != dep2:
                            ok = False
                            break
                        if not abs(v - dv) <= 0.5 * 10.0**-k + EPS32 * (abs(dv) + 10.0**-k) + TINY:
                            ok, why = False, f"{txt!r} is not within half a unit of digit {k} of {dv!r}"
                            break
                        x = v * 10.0**k
                        if abs(x - round(x)) <= 1e-9 * max(1.0, abs(x)):
                            level.add("decimal")
                        elif _text_to_f32(txt) == f32(round(v, k)):
                            level.add("float32")
                        else:
                            ok, why = False, f"{txt!r} is not a number with {k} digits after the point"
                            break
                o.check(ok, "newick_writer_emits_the_tree", lambda: f"{what}: round_distance={k}: {why}: {text!r} vs branches {wanted}")
                if ok and "float32" in level:
                    o.label("rounded_text=float32_level_only")
        except ValueError as e:
            o.fail("newick_writer_emits_the_tree", f"{what}: unreadable distance: {e} in {text!r}")

    def check_reparsed(t2, edge_tol, what, clause):
        if not check_leaves(o, t2, n, clause):
            return False
        if not o.check(bio_topo(t2.root, False) == topo, clause, lambda: f"{what}: topology {_fmt(bio_topo(t2.root, False))}, want {_fmt(topo)}"):
            return False
        return compare_subtree(o, mroot, t2.root, clause, edge_tol, what)

    # --- 1. default Newick: exact round trip
    s = tree.to_newick()
    check_written(s, name_int, "exact", "to_newick()")
    t2 = Tree.from_newick(s)
    if check_reparsed(t2, exact, "from_newick(to_newick())", "newick_roundtrip_keeps_topology_and_distances"):
        _check_pair_distances(o, t2, leaf_of, pairs, "newick_roundtrip_keeps_topology_and_distances", "from_newick(to_newick())")
        o.check(t2 == tree, "roundtrip_tree_equal", lambda: f"from_newick(to_newick()) != tree for {s!r}")
        o.check(_same_hash(o, t2, tree), "roundtrip_tree_equal", "hash differs after the exact round trip")
    # without the terminal semicolon (documented as accepted)
    t2 = Tree.from_newick(s[:-1])
    check_reparsed(t2, exact, "from_newick(no semicolon)", "newick_roundtrip_keeps_topology_and_distances")
    # whitespace between tokens
    sw = insert_whitespace(s, ws)
    if sw != s:
        o.label("whitespace_inserted")
    t2 = Tree.from_newick(sw)
    check_reparsed(t2, exact, f"from_newick({sw!r})", "newick_whitespace_ignored")

    # --- 2. labels
    sl = tree.to_newick(labels=labels)
    check_written(sl, name_label, "exact", "to_newick(labels)")
    t2 = Tree.from_newick(sl, labels=labels)
    check_reparsed(t2, exact, f"from_newick({sl!r}, labels)", "newick_labels_roundtrip")
    t2 = Tree.from_newick(insert_whitespace(sl, ws[::-1]), labels=labels)
    check_reparsed(t2, exact, "from_newick(labels, whitespace)", "newick_whitespace_ignored")

    # --- 3. without distances: topology kept, all distances default to 0
    use_labels = case["round"] % 2 == 0
    sn = tree.to_newick(labels=labels if use_labels else None, include_distance=False)
    check_written(sn, name_label if use_labels else name_int, "none", "to_newick(include_distance=False)")
    t2 = Tree.from_newick(insert_whitespace(sn, ws), labels=labels if use_labels else None)
    if check_leaves(o, t2, n, "newick_without_distances_keeps_topology"):
        o.check(
            bio_topo(t2.root, False) == topo,
            "newick_without_distances_keeps_topology",
            lambda: f"{sn!r}: topology {_fmt(bio_topo(t2.root, False))}, want {_fmt(topo)}",
        )
        o.check(
            all(x.distance == 0 for x in bio_nodes(t2.root) if x.parent is not None),
            "newick_without_distances_keeps_topology",
            "a distance that was not in the string is not 0",
        )

    # --- 4. rounded distances
    k = case["round"]
    sr = tree.to_newick(round_distance=k)
    check_written(sr, name_int, k, f"to_newick(round_distance={k})")
    t2 = Tree.from_newick(sr)
    per_edge = lambda d: 0.5 * 10.0**-k + EPS32 * (abs(d) + 10.0**-k) + TINY  # noqa: E731
    if check_reparsed(t2, per_edge, f"from_newick(to_newick(round_distance={k}))", "newick_rounded_distances_within_half_unit"):
        _check_pair_distances(
            o,
            t2,
            leaf_of,
            pairs,
            "newick_rounded_distances_within_half_unit",
            f"round_distance={k}",
            extra_tol=lambda e, s_: e * (0.5 * 10.0**-k * (1 + 1e-9)) + 2 * e * EPS32 * (s_ + e * 10.0**-k),
        )

    # --- 5. copy
    cp = tree.copy()
    if check_reparsed(cp, exact, "copy()", "copy_keeps_topology_and_distances"):
        _check_pair_distances(o, cp, leaf_of, pairs, "copy_keeps_topology_and_distances", "copy()")
        o.check(cp == tree and _same_hash(o, cp, tree), "copy_equal", "copy() != tree or hash differs")
        orig_ids = {id(x) for x in bnodes}
        o.check(all(id(x) not in orig_ids for x in bio_nodes(cp.root)), "copy_is_deep", "copy() shares a TreeNode with the original")
    # == is not trivially true: the same tree with two leaf indices exchanged (and a really different topology)
    if n >= 2:
        i, j = case["pairs"][0][0] % n, case["pairs"][0][1] % n
        other_spec = _swap_leaves(spec, i, j)
        oroot, _ = build_model(other_spec)
        if model_topo(oroot, True) != topo_d:
            o.label("unequal_tree_compared")
            other = Tree(build_biotite(other_spec)[0])
            o.check(not (other == tree) and other != tree, "different_trees_are_unequal", lambda: f"leaves {i} and {j} exchanged, but the trees compare equal")

    # --- 5b. one subtree on its own: TreeNode.to_newick / from_newick / copy (documented: no semicolon,
    # (node, distance) is returned, a copy has neither parent nor distance)
    inner_pos = [m.pos for m in mnodes if m.index is None]
    if inner_pos:
        msub = mnodes[inner_pos[case["pairs"][1][0] % len(inner_pos)]]
        bsub = bnodes[msub.pos]
        o.label("subtree_is_root" if msub.parent is None else "subtree_below_root")
        sub_d = model_topo(msub, True)
        ssub = bsub.to_newick()
        o.check(not ssub.rstrip().endswith(";"), "node_newick_roundtrip", lambda: f"TreeNode.to_newick() ends with a semicolon: {ssub!r}")
        res = TreeNode.from_newick(ssub.rstrip().rstrip(";"))
        if o.check(
            isinstance(res, tuple) and len(res) == 2 and isinstance(res[0], TreeNode),
            "node_newick_roundtrip",
            lambda: f"TreeNode.from_newick returned {res!r:.200} instead of (node, distance)",
        ):
            node2, dist2 = res
            o.check(bio_topo(node2, True) == sub_d, "node_newick_roundtrip", lambda: f"subtree {ssub!r} was read as {_fmt(bio_topo(node2, True))}")
            want_d = 0.0 if msub.parent is None else msub.dist
            o.check(f32(dist2) == want_d, "node_newick_roundtrip", lambda: f"distance returned for {ssub!r}: {dist2!r}, want {want_d!r}")
            o.check(node2.parent is None and node2.distance is None, "node_newick_roundtrip", "the node read from a string has a parent / a distance")
        csub = bsub.copy()
        if o.check(isinstance(csub, TreeNode), "node_copy_is_detached_subtree", lambda: f"TreeNode.copy() returned a {type(csub).__name__}"):
            o.check(bio_topo(csub, True) == sub_d, "node_copy_is_detached_subtree", lambda: f"copy of the node over {sorted(msub.leafset)}: {_fmt(bio_topo(csub, True))}")
            o.check(csub.parent is None and csub.distance is None, "node_copy_is_detached_subtree", "the copy of a node has a parent / a distance")
            orig_ids = {id(x) for x in bnodes}
            o.check(all(id(x) not in orig_ids for x in bio_nodes(csub)), "node_copy_is_detached_subtree", "TreeNode.copy() shares a node with the original")
    o.check(bio_topo(tree.root, True) == topo_d, "operations_do_not_change_the_tree", "tree changed by to_newick / copy")

    # --- 6. binary form
    bt = as_binary(tree)
    if check_leaves(o, bt, n, "as_binary_keeps_leaves"):
        binner = [x for x in bio_nodes(bt.root) if not x.is_leaf()]
        o.check(
            all(len(x.children) == 2 for x in binner),
            "as_binary_is_binary",
            lambda: f"child counts {[len(x.children) for x in binner]} in {bt.to_newick(include_distance=False)}",
        )
        paths = bio_leaf_paths(bt.root)
        for i, j in pairs:
            want, edges, abs_sum = model_distance(leaf_of[i], leaf_of[j])
            tol = sum_tol(edges, abs_sum, 2)
            got, bedges = bio_pair_distance(paths, i, j)
            o.check(
                abs(got - want) <= tol,
                "as_binary_keeps_leaf_distances",
                lambda: f"path {i}-{j}: {got!r} in the binary tree, {want!r} before (tol {tol:g}); {bt.to_newick()}",
            )
            api = bt.get_distance(i, j)
            o.check(
                abs(api - want) <= tol + sum_tol(bedges, abs_sum),
                "as_binary_keeps_leaf_distances",
                lambda: f"get_distance({i},{j}) = {api!r} in the binary tree, {want!r} before",
            )
        # topology kept = every clade of the tree is still a clade (binary form only refines)
        clades_b = set()

        def collect(x):
            if x.is_leaf():
                s_ = frozenset([x.index])
            else:
                s_ = frozenset().union(*[collect(c) for c in x.children])
            clades_b.add(s_)
            return s_

        collect(bt.root)
        missing = [sorted(m.leafset) for m in mnodes if m.leafset not in clades_b]
        o.check(not missing, "as_binary_keeps_clades", lambda: f"clades lost: {missing}; {bt.to_newick(include_distance=False)}")
    if case.get("binary_node"):
        res = as_binary(tree.root)
        if o.check(isinstance(res, TreeNode), "as_binary_node_returns_node", lambda: f"as_binary(TreeNode) returned {type(res).__name__}: {res!r:.200}"):
            o.check(bio_topo(res, False) == bio_topo(bt.root, False), "as_binary_node_returns_node", "as_binary(root) differs from as_binary(tree).root")
    elif findings.is_open(F_AS_BINARY_NODE):
        o.exclude(F_AS_BINARY_NODE)
    o.check(bio_topo(tree.root, True) == topo_d, "operations_do_not_change_the_tree", "tree changed by as_binary")
    o.mark_nontrivial(n >= 3 and nonbinary)
    return o


def _looks_like_number(txt):
    try:
        float(txt)
    except ValueError:
        return False
    return True


def _same_hash(o, a, b):
    """equal objects have equal hashes - if the class is hashable at all (nothing says it has to be)"""
    try:
        return hash(a) == hash(b)
    except TypeError:
        o.label("tree_unhashable")
        return True


def _swap_leaves(spec, i, j):
    """the spec with the reference indices i and j exchanged"""
    if isinstance(spec, int):
        return j if spec == i else i if spec == j else spec
    return [[_swap_leaves(cs, i, j), d] for cs, d in spec]


def _text_to_f32(t):
    """the float32 a distance text stands for (widened to double again)"""
    with np.errstate(all="ignore"):
        return f32(float(t))


def _parsed_branches(p, name_to_index):
    """[(sorted leaf set below, depth, distance text)] for every non-root node of a parse result"""
    out = []

    def rec(x, depth, is_root):
        if x[0] == "leaf":
            ls = [name_to_index(x[1])]
        else:
            ls = []
            for c in x[1]:
                ls.extend(rec(c, depth + 1, False))
        if not is_root:
            out.append((sorted(ls), depth, x[-1]))
        return ls

    rec(p, 0, True)
    return out


# --------------------------------------------------------------------------
# run: rooted trees - distance / ancestor queries
# --------------------------------------------------------------------------
def run_tree_queries(case):
    from biotite.sequence.phylo import Tree, TreeError

    o = Outcome()
    spec = case["tree"]
    mroot, mnodes = build_model(spec)
    broot, bnodes = build_biotite(spec)
    tree = Tree(broot)
    n, nonbinary = _tree_labels(o, mnodes)
    leaf_of = {m.index: m for m in mnodes if m.index is not None}
    if not check_leaves(o, tree, n, "tree_leaves_indexed_by_reference_index"):
        return o
    # "the tree wraps a root TreeNode, accessible via root": the node that was given, or at least the same tree
    o.label("root_is_given_node" if tree.root is broot else "root_is_other_object")
    if not o.check(bio_topo(tree.root, True) == model_topo(mroot, True), "tree_leaves_indexed_by_reference_index", "tree.root is not the tree that was given"):
        return o
    pos_of = {id(b): k for k, b in enumerate(bnodes)}

    def check_pair(ma, mb, what, via_tree):
        a, b = bnodes[ma.pos], bnodes[mb.pos]
        want, edges, abs_sum = model_distance(ma, mb)
        tol = sum_tol(edges, abs_sum)
        lca = a.lowest_common_ancestor(b)
        mlca = model_lca(ma, mb)
        if not o.check(
            lca is bnodes[mlca.pos],
            "lowest_common_ancestor_is_deepest_shared_ancestor",
            lambda: f"{what}: got node #{pos_of.get(id(lca))} want node #{mlca.pos} (preorder numbering)",
        ):
            return
        got = a.distance_to(b)
        o.check(abs(got - want) <= tol, "distance_to_equals_path_sum", lambda: f"{what}: distance_to = {got!r}, path sum {want!r} over {edges} branches (tol {tol:g})")
        got_t = a.distance_to(b, topological=True)
        o.check(got_t == edges, "topological_distance_equals_branch_count", lambda: f"{what}: topological distance_to = {got_t!r}, branches on the path: {edges}")
        if via_tree:
            i, j = ma.index, mb.index
            got = tree.get_distance(i, j)
            o.check(abs(got - want) <= tol, "get_distance_equals_path_sum", lambda: f"get_distance({i},{j}) = {got!r}, path sum {want!r} (tol {tol:g})")
            got_t = tree.get_distance(i, j, True)
            o.check(got_t == edges, "topological_distance_equals_branch_count", lambda: f"get_distance({i},{j},topological=True) = {got_t!r}, want {edges}")
            got_t = tree.get_distance(i, j, topological=True)
            o.check(got_t == edges, "topological_distance_equals_branch_count", lambda: f"get_distance({i},{j},topological=True) = {got_t!r}, want {edges}")

    for i, j in _leaf_pairs(n, cap=66):
        check_pair(leaf_of[i], leaf_of[j], f"leaves {i},{j}", True)
        check_pair(leaf_of[j], leaf_of[i], f"leaves {j},{i}", True)
    if n >= 1:
        check_pair(leaf_of[0], leaf_of[0], "leaf 0 with itself", True)
    m = len(mnodes)
    kinds = set()
    for ra, rb in case["pairs"]:
        ma, mb = mnodes[ra % m], mnodes[rb % m]
        check_pair(ma, mb, f"nodes #{ma.pos},#{mb.pos}", False)
        l = model_lca(ma, mb)
        if ma is mb:
            kinds.add("pair_same_node")
        elif l is ma or l is mb:
            kinds.add("pair_ancestor_descendant")
        elif ma.index is None or mb.index is None:
            kinds.add("pair_inner_node")
    o.label(*sorted(kinds))
    # nodes of different trees: documented None / TreeError
    other = tree.copy()
    x = bnodes[case["pairs"][0][0] % m]
    y = other.leaves[0]
    o.check(x.lowest_common_ancestor(y) is None, "no_common_ancestor_in_different_trees", "lowest_common_ancestor of nodes of two trees is not None")
    o.expect_raises(TreeError, lambda: x.distance_to(y), "no_common_ancestor_in_different_trees", "distance_to a node of another tree")
    o.mark_nontrivial(n >= 3 and nonbinary)
    return o


# --------------------------------------------------------------------------
# documented rejections of invalid matrices (finite list)
#
# The docstrings of upgma / neighbor_joining promise ValueError for exactly two things: a matrix that is not
# symmetric, an entry below 0.  NaN, inf, a non-square array and fewer than 4 taxa for NJ are outside the
# property's quantifier and in no docstring: there the only demand is "no silent nonsense" - an exception of any
# type, or a Tree over exactly the given taxa (e.g. the star tree for 3 taxa).
# --------------------------------------------------------------------------
def invalid_cases(tier):
    for n in (2, 3, 4, 5, 7):
        base = [[0.0 if i == j else float(1 + (i * j + i + j) % 4) for j in range(n)] for i in range(n)]
        for kind in ("asymmetric", "negative", "nan", "inf", "not_square"):
            for pos in ((0, 1), (n - 1, 0), (n // 2, n - 1)):
                if pos[0] == pos[1]:
                    continue
                yield {"n": n, "base": base, "kind": kind, "pos": list(pos)}
    for n in (1, 2, 3):
        yield {"n": n, "base": [[0.0 if i == j else 1.0 for j in range(n)] for i in range(n)], "kind": "nj_too_small", "pos": [0, 0]}


def run_invalid(case):
    from biotite.sequence.phylo import Tree, neighbor_joining, upgma

    o = Outcome()
    d = np.array(case["base"], dtype=np.float64)
    i, j = case["pos"]
    kind = case["kind"]
    o.label(kind)
    funcs = [("upgma", upgma), ("neighbor_joining", neighbor_joining)]
    if kind == "asymmetric":
        d[i, j] += 2.5
    elif kind == "negative":
        d[i, j] = d[j, i] = -0.5
    elif kind == "nan":
        d[i, j] = d[j, i] = np.nan
    elif kind == "inf":
        d[i, j] = d[j, i] = np.inf
    elif kind == "not_square":
        d = d[:, :-1]
    elif kind == "nj_too_small":
        funcs = funcs[1:]
    n = case["n"]
    for name, f in funcs:
        what = f"{name}({kind} matrix, n={n})"
        documented = kind in ("asymmetric", "negative") and not (name == "neighbor_joining" and n < 4)
        if documented:
            o.expect_raises(ValueError, lambda: f(d), "invalid_matrix_rejected", what)
            continue
        try:
            res = f(d)
        except Exception as e:  # noqa: BLE001 - no type is promised for these inputs
            o.label(f"{kind}:{name}:refused", "refused_with_" + type(e).__name__)
            continue
        o.label(f"{kind}:{name}:returned_a_value")
        if kind == "not_square":
            o.check(isinstance(res, Tree), "undocumented_input_gives_error_or_tree", lambda: f"{what} returned {res!r:.200}")
        else:
            check_leaves(o, res, n, "undocumented_input_gives_error_or_tree")
    o.mark_nontrivial(True)
    return o


# --------------------------------------------------------------------------
# construction checks of TreeNode (finite list of documented refusals)
# --------------------------------------------------------------------------
CONSTRUCTION_KINDS = [
    # (kind, exception demanded): TreeError only where a docstring names it (as_root), else "an error"
    ("root_as_child", "TreeError"),  # as_root(): "When a root node is used as child ... a TreeError is raised"
    ("tree_root_as_child", "TreeError"),  # Tree(): "The constructor calls the node's as_root() method"
    ("child_has_parent", "any"),  # "Only the parent can be set once, when the parent node is created"
    ("same_child_twice", "any"),  # the second use would set the parent a second time
    ("negative_index", "any"),  # index: "Must be a positive integer"
    ("index_and_children", "any"),  # "cannot be used in combination"
    ("children_without_distances", "any"),  # distances: "Must be set if children is set"
    ("nothing_given", "any"),  # neither a leaf nor an intermediate node
    ("root_with_parent", "any"),  # as_root() of a node that is a child: a root is "a node without a parent node"
]


def construction_cases(tier):
    for kind, exc in CONSTRUCTION_KINDS:
        for arity in (1, 2, 3):
            yield {"kind": kind, "exc": exc, "arity": arity}


def run_construction(case):
    from biotite.sequence.phylo import Tree, TreeError, TreeNode

    o = Outcome()
    kind, arity = case["kind"], case["arity"]
    o.label(kind)
    leaves = [TreeNode(index=i) for i in range(arity)]
    dists = [1.0] * arity
    if kind == "root_as_child":
        inner = TreeNode(leaves, dists)
        inner.as_root()
        call = lambda: TreeNode([inner], [1.0])  # noqa: E731
    elif kind == "tree_root_as_child":
        tree = Tree(TreeNode(leaves, dists))
        call = lambda: TreeNode([tree.root], [1.0])  # noqa: E731
    elif kind == "child_has_parent":
        TreeNode(leaves, dists)
        call = lambda: TreeNode(leaves[:1], [2.0])  # noqa: E731
    elif kind == "same_child_twice":
        call = lambda: TreeNode([leaves[0]] * (arity + 1), [1.0] * (arity + 1))  # noqa: E731
    elif kind == "negative_index":
        call = lambda: TreeNode(index=-arity)  # noqa: E731
    elif kind == "index_and_children":
        call = lambda: TreeNode(leaves, dists, index=arity)  # noqa: E731
    elif kind == "children_without_distances":
        call = lambda: TreeNode(leaves)  # noqa: E731
    elif kind == "nothing_given":
        call = lambda: TreeNode()  # noqa: E731
    else:
        TreeNode(leaves, dists)
        call = lambda: leaves[arity - 1].as_root()  # noqa: E731
    exc = TreeError if case["exc"] == "TreeError" else Exception
    o.expect_raises(exc, call, "invalid_construction_refused", f"{kind} (arity {arity})")
    o.mark_nontrivial(True)
    return o


# --------------------------------------------------------------------------
# clustering of many taxa (cluster sizes beyond 8 and 16 bit counters need > 256 members)
# --------------------------------------------------------------------------
def st_cluster_large(tier):
    top = 420 if tier == "quick" else 900
    return st.fixed_dictionaries(
        {
            "group": st.integers(230, top - 40),  # taxa that form one tight group
            "rest": st.integers(2, 40),  # scattered taxa
            "seed": st.integers(0, 2**31 - 1),
            "dtype": st.sampled_from(["float64", "float32"]),
            "layout": st.sampled_from(["c", "f", "strided"]),
            "method": st.sampled_from(["upgma", "upgma", "nj"]),
        }
    )


def run_cluster_large(case):
    from biotite.sequence.phylo import neighbor_joining, upgma

    o = Outcome()
    nbig = case["group"]
    n = nbig + case["rest"]
    rng = np.random.default_rng(case["seed"])
    pts = np.concatenate([rng.normal(0.0, 0.05, size=(nbig, 3)), rng.uniform(-50.0, 50.0, size=(n - nbig, 3))])
    pts = pts[rng.permutation(n)]
    d = np.sqrt(((pts[:, None, :] - pts[None, :, :]) ** 2).sum(axis=2))
    np.fill_diagonal(d, 0.0)
    dm = _layout(d.astype(case["dtype"]), case["layout"])
    d = np.array(dm, dtype=np.float64)
    o.label("method=" + case["method"], "group>=256" if nbig >= 256 else "group<256", "layout=" + case["layout"])
    o.mark_nontrivial(nbig >= 256)
    if case["method"] == "nj":
        tree = neighbor_joining(dm)
        check_leaves(o, tree, n, "every_index_exactly_one_leaf")
        return o
    tree = upgma(dm)
    if not check_leaves(o, tree, n, "every_index_exactly_one_leaf"):
        return o
    root = CNode(tree.root, None)
    for c in root.walk():
        if not c.children:
            continue
        if not o.check(len(c.children) == 2, "upgma_tree_is_binary", f"a node with {len(c.children)} children"):
            return o
        # float32 running means: the error grows with the number of merges below the node
        tol = (64 + 8 * len(c.leaves)) * EPS32 * float(d[np.ix_(c.leaves, c.leaves)].max()) + TINY
        lo, hi = min(c.leaf_dists), max(c.leaf_dists)
        o.check(hi - lo <= 2 * tol, "upgma_ultrametric", lambda: f"node over {len(c.leaves)} leaves: leaf depths {lo!r} .. {hi!r} (tol {tol:g})")
        a, b = c.children
        mean = float(np.mean(d[np.ix_(a.leaves, b.leaves)]))
        got = (lo + hi) / 2
        o.check(
            abs(got - mean / 2) <= tol,
            "upgma_height_is_half_average_linkage",
            lambda: f"merge of clusters with {len(a.leaves)} and {len(b.leaves)} leaves: height {got!r}, mean inter-cluster distance / 2 = {mean / 2!r} (tol {tol:g})",
        )
        if len(o.violations) > 3:
            break
    return o


# --------------------------------------------------------------------------
SUBS = [
    Sub(
        "cluster_large",
        st_cluster_large,
        run_cluster_large,
        quick=48,
        thorough=600,
        rule="one tight group of >= 256 taxa plus scattered ones (a cluster passes 256 members while others remain)",
        clauses="232..420 (thorough 900) taxa: every index one leaf; UPGMA binary, ultrametric, height = half average linkage",
    ),
    Sub(
        "upgma",
        st_upgma,
        run_upgma,
        quick=1700,
        thorough=60000,
        rule="n >= 5 and some merge step has a tie (two pairs at the minimal mean distance)",
        clauses="every index one leaf; binary; ultrametric (equal leaf depths, no negative branch); "
        "height = half average linkage recomputed from the input; joined clusters were the closest; beyond the statement: "
        "the argument is not modified",
    ),
    Sub(
        "nj_additive",
        st_nj_additive,
        run_nj_additive,
        quick=1500,
        thorough=60000,
        rule="n >= 5, not all distances zero",
        clauses="every index one leaf; three-way root, binary elsewhere; every d(i,j) of an additive matrix is a path length of the tree "
        "(tolerance (64 + 4 n) eps32 max(D)); beyond the statement: the argument is not modified",
    ),
    Sub(
        "nj_any",
        st_nj_any,
        run_nj_any,
        quick=600,
        thorough=25000,
        rule="n >= 5",
        clauses="every index one leaf; documented shape; finite branches - on arbitrary symmetric non-negative matrices; the returned "
        "tree survives to_newick/from_newick, copy and as_binary; beyond the statement: the argument is not modified",
    ),
    Sub(
        "tree_newick",
        st_tree_case,
        run_tree_newick,
        quick=1300,
        thorough=50000,
        rule=">= 3 leaves and a node with 1 or >= 3 children",
        clauses="Newick writer (independent reader) and reader: exact round trip, labels, no distances, rounded, whitespace, "
        "no semicolon; copy(); as_binary(): binary, leaf distances, clades kept; TreeNode.to_newick / from_newick / copy of one "
        "inner node; beyond the statement: == / hash after round trip and copy, != for exchanged leaves",
    ),
    Sub(
        "tree_queries",
        st_tree_case,
        run_tree_queries,
        quick=1300,
        thorough=50000,
        rule=">= 3 leaves and a node with 1 or >= 3 children",
        clauses="get_distance / distance_to (weighted and topological) = explicit path sums; lowest_common_ancestor = deepest shared ancestor",
    ),
]

ENUMS = [
    Enum(
        "invalid_matrix",
        invalid_cases,
        run_invalid,
        rule="matrices that are not symmetric or have an entry below 0 (invalid by the docstring); NaN / inf / not square / "
        "n < 4 for NJ (outside the quantifier, no docstring)",
        clauses="documented ValueError of upgma and neighbor_joining for asymmetric / negative matrices; for the others any "
        "exception or a Tree over exactly the given taxa",
        exhaustive=False,
    ),
    Enum(
        "construction_refusals",
        construction_cases,
        run_construction,
        rule="every listed TreeNode construction contradicts the class docstring",
        clauses="TreeError for a root used as child (documented in as_root); an exception of any type for the others",
        exhaustive=False,
    ),
]


def _is_as_binary_node(sub, case, clause, message):
    return sub == "tree_newick" and clause == "as_binary_node_returns_node" and bool(case.get("binary_node"))


FINDINGS = {"as_binary_of_treenode_returns_tuple": _is_as_binary_node}
