"""
C16  Superimposition minimises RMSD with a proper rotation.

Oracle: a Kabsch fit written here in float64 (SVD of the cross-covariance, the
reflection repaired on the direction of the smallest singular value).  biotite
works in float32, so every comparison carries a derived tolerance

    rmsd_got <= sqrt(rmsd_opt^2 + tolA^2) + tolB          (and >= rmsd_opt - tolB)

* tolB = (C_B + k) * eps32 * S   - rounding of coordinates of magnitude S (input
  rounding, centring, adding the target translation; the centroid of k atoms
  is a float32 sum of k terms, its error is a common translation of the fit).
* tolA - the rotation comes from the SVD of a float32 covariance matrix whose
  error is delta = C_D(k) * eps32 * k*Lf*Lm (Lf, Lm RMS radii).  A rotation
  error about principal axis a costs   min(delta^2 / (2 g_a), CAP * g_a)   of the
  Kabsch objective, g_a = s_b + s_c the sum of the two other (signed) singular
  values: first order perturbation of the polar factor, capped by what a full
  turn about that axis can cost.  tolA^2 = 2/k * sum_a(...).  For well
  conditioned sets tolA ~ eps32 * L, in the worst case (g ~ delta, nearly
  collinear sets of aspect ratio ~ 1/sqrt(eps32)) it is ~ sqrt(eps32) * L: that
  is what a float32 Kabsch can deliver, exactly degenerate sets (g = 0) are
  tight again.

With E = the error rotation expressed in the singular basis (angle t, axis u)
the loss of the Kabsch objective is exactly (1 - cos t) * sum_a u_a^2 g_a, so
the per-axis form above is exact for the cap and first order for the delta
branch.  The constants were calibrated on the unchanged tree (notes/C16.md):
largest observed/allowed ratio 0.08 in the delta branch (margin 12), 0.89 =
sqrt(2 / CAP) in the cap branch (a rigorous bound, reached by nearly collinear
sets whose rotation about the long axis is noise in float32).
"""

import math

import numpy as np
from hypothesis import strategies as st

from vlib import Outcome, Sub

PROPERTY = "C16"
RULE = (
    "point sets n=1..40 (thorough ..150) built from a seed: single point, (nearly) collinear, (nearly) planar, "
    "general/anisotropic, mirror-symmetric, isotropic (cube/tetrahedron), explicit lattice points; extent 1e-1..1e3, "
    "centroid offsets 0..1e3; mobile = rigid / noisy / reflected / unrelated copy; masks, stacks, containers. "
    "Non-trivial = >= 4 fitted atoms of rank 3 with noise > 0 (optimality) or a rank < 3 set (degenerate class); "
    "for the outlier/homolog variants: >= 1 atom was excluded from the anchors"
)

EPS32 = float(np.finfo(np.float32).eps)
ORTHO_TOL = 1e-4  # DESIGN: orthonormality / determinant tolerance (float32 SVD delivers ~1e-6)

# calibrated constants (see module docstring and notes/C16.md)
C_B = 16.0
C_D0 = 16.0
C_D1 = 0.5  # delta = (C_D0 + C_D1 * k) * eps32 * k * Lf * Lm
CAP = 2.5  # a full turn about an axis costs at most 2 g of the objective; 25 % head room
C_APPLY = 16.0  # apply() vs float64 matrix form: C_APPLY * eps32 * (|x| + |c| + |t|)


# --------------------------------------------------------------------------
# float64 geometry
# --------------------------------------------------------------------------
def _unit(v):
    n = np.linalg.norm(v)
    if n == 0:
        return np.array([1.0, 0.0, 0.0])
    return v / n


def rot_axis_angle(axes, angles):
    """Rodrigues; axes (..., 3) unit vectors, angles (...,) -> (..., 3, 3)."""
    axes = np.asarray(axes, dtype=np.float64)
    angles = np.asarray(angles, dtype=np.float64)
    x, y, z = axes[..., 0], axes[..., 1], axes[..., 2]
    zero = np.zeros_like(x)
    K = np.stack(
        [np.stack([zero, -z, y], -1), np.stack([z, zero, -x], -1), np.stack([-y, x, zero], -1)], -2
    )
    s = np.sin(angles)[..., None, None]
    c = np.cos(angles)[..., None, None]
    return np.eye(3) + s * K + (1 - c) * (K @ K)


def rand_rotation(rng, mode="random"):
    axis = _unit(rng.normal(size=3))
    if mode == "identity":
        return np.eye(3)
    if mode == "pi":
        angle = math.pi
    elif mode == "small":
        angle = 10 ** rng.uniform(-6, -2)
    else:
        # uniform on SO(3) through a random unit quaternion
        q = _unit(rng.normal(size=4))
        w, x, y, z = q
        return np.array(
            [
                [1 - 2 * (y * y + z * z), 2 * (x * y - z * w), 2 * (x * z + y * w)],
                [2 * (x * y + z * w), 1 - 2 * (x * x + z * z), 2 * (y * z - x * w)],
                [2 * (x * z - y * w), 2 * (y * z + x * w), 1 - 2 * (x * x + y * y)],
            ]
        )
    return rot_axis_angle(axis, angle)


def kabsch64(F, M):
    """Reference fit of M onto F (both (k,3) float64): R @ (m - cm) + cf."""
    F = np.asarray(F, dtype=np.float64)
    M = np.asarray(M, dtype=np.float64)
    k = len(F)
    cf = F.mean(axis=0)
    cm = M.mean(axis=0)
    Fc = F - cf
    Mc = M - cm
    H = Mc.T @ Fc  # sum_i m_i f_i^T ; maximise tr(R H)
    U, s, Vt = np.linalg.svd(H)
    d = 1.0 if np.linalg.det(U) * np.linalg.det(Vt) >= 0 else -1.0
    R = Vt.T @ np.diag([1.0, 1.0, d]) @ U.T
    res = Fc - Mc @ R.T
    rmsd = math.sqrt(float(np.mean(np.sum(res * res, axis=1))))
    Lf = math.sqrt(float(np.mean(np.sum(Fc * Fc, axis=1))))
    Lm = math.sqrt(float(np.mean(np.sum(Mc * Mc, axis=1))))
    return {"R": R, "cf": cf, "cm": cm, "rmsd": rmsd, "s": s, "d": d, "Lf": Lf, "Lm": Lm, "k": k}


def rmsd64(A, B):
    A = np.asarray(A, dtype=np.float64)
    B = np.asarray(B, dtype=np.float64)
    d = A - B
    return math.sqrt(float(np.mean(np.sum(d * d, axis=-1))))


def tolerances(ref, S):
    """(tolA, tolB, kappa) for a fit of ref['k'] atoms with coordinate magnitude S."""
    k = ref["k"]
    s1, s2, s3 = (float(v) for v in ref["s"])
    d = ref["d"]
    sigma = k * ref["Lf"] * ref["Lm"]
    delta = (C_D0 + C_D1 * k) * EPS32 * sigma
    loss = 0.0
    gmin = None
    for g in (s2 + d * s3, s1 + d * s3, s1 + s2):
        if g <= 0.0:
            continue
        loss += min(delta * delta / (2.0 * g), CAP * g)
        gmin = g if gmin is None else min(gmin, g)
    tolA = math.sqrt(2.0 * loss / k)
    tolB = (C_B + k) * EPS32 * S
    kappa = math.inf if (gmin is None or gmin <= 0.0) else sigma / gmin
    return tolA, tolB, kappa


def numeric_rank(X, S):
    """Rank of a centred point set, judged at the resolution float32 can hold."""
    X = np.asarray(X, dtype=np.float64)
    Xc = X - X.mean(axis=0)
    sv = np.linalg.svd(Xc, compute_uv=False)
    thr = max(1e-3 * sv[0], 4 * EPS32 * S * math.sqrt(len(X)))
    return int(np.sum(sv > thr)) if sv[0] > 4 * EPS32 * S * math.sqrt(len(X)) else 0


# --------------------------------------------------------------------------
# point sets
# --------------------------------------------------------------------------
CUBE = np.array(
    [[1, 1, 1], [1, -1, -1], [-1, 1, -1], [-1, -1, 1], [-1, -1, -1], [-1, 1, 1], [1, -1, 1], [1, 1, -1]],
    dtype=np.float64,
)
SHAPES = ["point", "line", "plane", "general", "mirror", "iso", "grid"]
SHAPES_MOSTLY_GENERAL = SHAPES + ["general"] * 6 + ["mirror"] * 2


def make_points(rng, n, shape, thin, grid=None):
    """Point set of unit extent (n,3), float64, in a random orientation."""
    if shape == "grid":
        X = np.array(grid, dtype=np.float64).reshape(-1, 3) / 3.0
    elif shape == "point":
        X = np.tile(rng.uniform(-1, 1, 3), (n, 1))
    elif shape == "line":
        X = np.zeros((n, 3))
        X[:, 0] = rng.uniform(-1, 1, n)
        X += thin * rng.normal(size=(n, 3))
    elif shape == "plane":
        X = np.zeros((n, 3))
        X[:, :2] = rng.uniform(-1, 1, (n, 2))
        X += thin * rng.normal(size=(n, 3))
    elif shape == "general":
        # thin = anisotropy: 1 isotropic, small = nearly planar or nearly collinear
        X = rng.normal(size=(n, 3)) * np.array([1.0, 1.0 if rng.random() < 0.5 else thin, thin])
    elif shape == "mirror":
        half = rng.normal(size=((n + 1) // 2, 3))
        X = np.empty((2 * len(half), 3))
        X[0::2] = half
        X[1::2] = half * np.array([1.0, 1.0, -1.0])
        X = X[:n]
    elif shape == "iso":
        X = CUBE[np.arange(n) % 8] / math.sqrt(3.0)
    else:
        raise ValueError(shape)
    return X @ rand_rotation(rng).T


def offset_vec(rng, magnitude):
    return _unit(rng.normal(size=3)) * magnitude


def derive_mobile(rng, X, extent, kind, noise, rot_mode, off):
    """A copy of X (float64): noise, optional reflection, rigid motion."""
    Y = X.copy()
    if kind == "unrelated":
        Y = make_points(rng, len(X), "general", 1.0) * extent * 10 ** rng.uniform(-0.5, 0.5)
    if "noisy" in kind:
        Y = Y + noise * extent * rng.normal(size=Y.shape)
    if "reflected" in kind:
        u = _unit(rng.normal(size=3))
        c = Y.mean(axis=0)
        Y = Y - 2.0 * np.outer((Y - c) @ u, u)
    R = rand_rotation(rng, rot_mode)
    return (Y - Y.mean(axis=0)) @ R.T + Y.mean(axis=0) + off


def make_mask(case, n):
    bits = case.get("mask")
    if bits is None:
        return None
    if isinstance(bits, int):
        # (older replay files) bit i of the integer = atom i is fitted
        m = np.array([(bits >> i) & 1 for i in range(n)], dtype=bool)
    else:
        m = np.array([bool(b) for b in bits], dtype=bool)
    # mask_keep guarantees >= 1 atom
    m[case.get("mask_keep", 0) % n] = True
    return m


def to_container(X, container):
    """ndarray float32 / float64 or AtomArray / AtomArrayStack holding X."""
    import biotite.structure as struc

    X = np.asarray(X)
    if container == "f8":
        return np.array(X, dtype=np.float64)
    if container == "f4":
        return X.astype(np.float32)
    if X.ndim == 2:
        a = struc.AtomArray(X.shape[0])
    else:
        a = struc.AtomArrayStack(X.shape[0], X.shape[1])
    a.coord = X.astype(np.float32)
    n = X.shape[-2]
    a.chain_id[:] = "A"
    a.res_id[:] = np.arange(1, n + 1)
    a.res_name[:] = "GLY"
    a.atom_name[:] = "CA"
    a.element[:] = "C"
    return a


def coords64(obj):
    c = obj if isinstance(obj, np.ndarray) else obj.coord
    return np.array(c, dtype=np.float64)


def max_abs(*arrays):
    return max([float(np.max(np.abs(a))) if np.size(a) else 0.0 for a in arrays] + [1e-30])


# --------------------------------------------------------------------------
# oracle pieces shared by the sub-checks
# --------------------------------------------------------------------------
def check_transform_shape(o, tr, m):
    ok = o.check_eq(tuple(tr.rotation.shape), (m, 3, 3), "transformation_shapes", "rotation.shape")
    ok &= o.check(
        tuple(tr.center_translation.shape) in ((m, 3), (1, 3)),
        "transformation_shapes",
        lambda: f"center_translation.shape {tr.center_translation.shape} for {m} models",
    )
    ok &= o.check(
        tuple(tr.target_translation.shape) in ((m, 3), (1, 3)),
        "transformation_shapes",
        lambda: f"target_translation.shape {tr.target_translation.shape} for {m} models",
    )
    return ok


def check_proper_rotation(o, R, what=""):
    R = np.asarray(R, dtype=np.float64)
    if not o.check(bool(np.all(np.isfinite(R))), "rotation_orthonormal", lambda: f"{what} rotation not finite: {R.tolist()}"):
        return False
    err = float(np.max(np.abs(R.T @ R - np.eye(3))))
    ok = o.check(err <= ORTHO_TOL, "rotation_orthonormal", lambda: f"{what} |R^T R - 1| = {err:.3g}: {R.tolist()}")
    det = float(np.linalg.det(R))
    ok &= o.check(abs(det - 1.0) <= ORTHO_TOL, "rotation_det_plus_one", lambda: f"{what} det = {det:.6f}: {R.tolist()}")
    return ok


def params64(tr, k, m):
    """(R, c, t) of model k of an AffineTransformation with m models, as float64."""
    R = np.array(tr.rotation[k], dtype=np.float64)
    c = np.array(tr.center_translation[k if tr.center_translation.shape[0] == m and m > 1 else 0], dtype=np.float64)
    t = np.array(tr.target_translation[k if tr.target_translation.shape[0] == m and m > 1 else 0], dtype=np.float64)
    return R, c, t


def check_optimal(o, F, M, fitted, S, what, exact=False, extra_roundings=0.0):
    """F, M, fitted: (k,3) float64 over the atoms the fit was asked for."""
    ref = kabsch64(F, M)
    tolA, tolB, kappa = tolerances(ref, S)
    got = rmsd64(F, fitted)
    hi = math.sqrt(ref["rmsd"] ** 2 + tolA * tolA) + tolB
    o.check(
        got <= hi,
        "rmsd_minimal",
        lambda: f"{what}: rmsd after fit {got:.9g} > optimum {ref['rmsd']:.9g} (tolA {tolA:.3g}, tolB {tolB:.3g}, kappa {kappa:.3g})",
    )
    o.check(
        got >= ref["rmsd"] - tolB,
        "rmsd_not_below_optimum",
        lambda: f"{what}: rmsd after fit {got:.9g} < float64 optimum {ref['rmsd']:.9g} - {tolB:.3g} (the fit is not a rigid placement?)",
    )
    if exact:
        # input rounding to float32 moves an exact copy by <= sqrt(3)/2 eps32 S per structure
        bound = tolA + tolB + (2.0 + extra_roundings) * EPS32 * S
        o.check(
            got <= bound,
            "exact_copy_rmsd_zero",
            lambda: f"{what}: rigid copy fitted with rmsd {got:.9g} > {bound:.3g} (S={S:.3g}, L={ref['Lf']:.3g}, kappa={kappa:.3g})",
        )
    return ref, got, (tolA, tolB, kappa)


def check_rigid(o, M_all, fitted_all, tr_params, S, what):
    """fitted == R (x + c) + t for *all* atoms: the placement is rigid and is the returned transformation."""
    R, c, t = tr_params
    want = (M_all + c) @ R.T + t
    tol = C_APPLY * EPS32 * (max_abs(M_all) + max_abs(c) + max_abs(t))
    err = float(np.max(np.abs(want - fitted_all))) if len(M_all) else 0.0
    return o.check(
        err <= tol,
        "transformation_reproduces_fitted",
        lambda: f"{what}: fitted differs from rotation(x + center) + target by {err:.3g} > {tol:.3g}",
    )


def check_matrix_form(o, tr, m, Z_list, what):
    """apply(Z) == as_matrix() @ (Z, 1) model-wise; Z_list[k]: (p,3) float64 for model k."""
    mat = np.asarray(tr.as_matrix())
    if not o.check_eq(tuple(mat.shape), (m, 4, 4), "matrix_form", f"{what}: as_matrix().shape"):
        return
    Z = np.stack(Z_list).astype(np.float32)
    if m == 1 and len(Z_list) == 1:
        applied = [np.array(tr.apply(Z[0]), dtype=np.float64)]
    else:
        applied = np.array(tr.apply(Z), dtype=np.float64)
    for k in range(m):
        A = mat[k]
        o.check(
            bool(np.allclose(A[3], [0.0, 0.0, 0.0, 1.0], rtol=0.0, atol=1e-6)),
            "matrix_form",
            lambda: f"{what}: last row of the matrix is {A[3].tolist()}",
        )
        R, c, t = params64(tr, k, m)
        z = np.array(Z[k], dtype=np.float64)
        hom = np.concatenate([z, np.ones((len(z), 1))], axis=1)
        via_matrix = (A @ hom.T).T
        tol = C_APPLY * EPS32 * (max_abs(z) + max_abs(c) + max_abs(t))
        err = float(np.max(np.abs(via_matrix[:, :3] - applied[k])))
        o.check(
            err <= tol and bool(np.all(np.abs(via_matrix[:, 3] - 1.0) <= 1e-6)),
            "matrix_form",
            lambda: f"{what}: model {k}: apply() and as_matrix() differ by {err:.3g} > {tol:.3g}",
        )


def perturbation_probe(o, F, M, tr_params, slack, rng, extent, count, what):
    """No small perturbation of the returned placement may be better than it by more than slack."""
    R, c, t = tr_params
    placed = (M + c) @ R.T + t
    base = rmsd64(F, placed)
    g = F.mean(axis=0)
    axes = rng.normal(size=(count, 3))
    axes /= np.linalg.norm(axes, axis=1)[:, None]
    angles = 10 ** rng.uniform(-7, -0.5, count)
    angles[: count // 8] = 0.0  # pure translations
    dR = rot_axis_angle(axes, angles)
    dt = rng.normal(size=(count, 3)) * (10 ** rng.uniform(-7, -0.5, count))[:, None] * max(extent, 1e-30)
    dt[count // 8 : count // 4] = 0.0  # pure rotations
    moved = np.einsum("pij,kj->pki", dR, placed - g) + g + dt[:, None, :]
    diff = moved - F[None]
    r = np.sqrt(np.mean(np.sum(diff * diff, axis=2), axis=1))
    best = float(r.min())
    o.check(
        best >= base - slack,
        "rmsd_minimal",
        lambda: f"{what}: a perturbed placement has rmsd {best:.9g} < returned placement {base:.9g} - {slack:.3g}",
    )
    return base, best


# --------------------------------------------------------------------------
# sub-check 1: one structure onto one structure
# --------------------------------------------------------------------------
KINDS = ["rigid", "noisy", "reflected", "reflected_noisy", "unrelated"]
THIN_DEGENERATE = [0.0, 0.0, 1e-4, 1e-3, 1e-2, 1e-1]
THIN_GENERAL = [1.0, 1.0, 0.3, 1e-2, 1e-3]


def st_noise():
    return st.one_of(st.floats(0.0, 0.3), st.floats(-6.0, -0.5).map(lambda e: 10.0**e))


def st_offset():
    return st.one_of(st.just(0.0), st.floats(-1.0, 3.0).map(lambda e: 10.0**e))


@st.composite
def st_pointset(draw, tier, min_n=1, shapes=SHAPES):
    nmax = 40 if tier == "quick" else 150
    shape = draw(st.sampled_from(shapes))
    grid = None
    if shape == "grid":
        grid = draw(st.lists(st.lists(st.integers(-3, 3), min_size=3, max_size=3), min_size=min_n, max_size=8))
        n = len(grid)
    else:
        # mostly >= 4 atoms; the tiny sets (1, 2, 3 atoms: rank < 3 by construction) stay a visible class
        n = draw(st.one_of(st.integers(min_n, 3), st.integers(4, 12), st.integers(4, 12), st.integers(4, nmax), st.integers(4, nmax)))
    if shape in ("line", "plane"):
        thin = draw(st.sampled_from(THIN_DEGENERATE))
    elif shape == "general":
        thin = draw(st.sampled_from(THIN_GENERAL))
    else:
        thin = 0.0
    return {
        "n": n,
        "shape": shape,
        "grid": grid,
        "thin": thin,
        "log_extent": draw(st.floats(-1.0, 3.0)),
        "off_f": draw(st_offset()),
        "off_m": draw(st_offset()),
    }


@st.composite
def st_mask(draw, n):
    """(mask, mask_keep): None (1/3), or one 0/1 flag per atom drawn with a density class, so that masks of
    a few atoms, about half and nearly all atoms are all common; single-atom masks (trivial for optimality)
    stay a small explicit class."""
    if draw(st.integers(0, 2)) == 0:
        return None, 0
    keep = draw(st.integers(0, max(n - 1, 0)))
    density = draw(st.sampled_from([0, 2, 2, 3, 4, 5, 5, 6, 7, 8, 9, 10]))
    if density == 0:
        return [0] * n, keep  # exactly the atom mask_keep
    if density == 10:
        return [1] * n, keep  # a mask that selects every atom
    flags = draw(st.lists(st.integers(0, 9), min_size=n, max_size=n))
    return [int(f < density) for f in flags], keep


def st_fit(tier):
    @st.composite
    def gen(draw):
        case = draw(st_pointset(tier))
        case["seed"] = draw(st.integers(0, 2**32 - 1))
        case["kind"] = draw(st.sampled_from(KINDS))
        case["noise"] = draw(st_noise())
        case["rot"] = draw(st.sampled_from(["random", "random", "random", "identity", "pi", "small"]))
        case["mask"], case["mask_keep"] = draw(st_mask(case["n"]))
        case["cont_f"] = draw(st.sampled_from(["f4", "f8", "atoms"]))
        case["cont_m"] = draw(st.sampled_from(["f4", "f8", "atoms"]))
        # how the rigid motion is applied: in float64 by this module, or (1 of 8) by biotite's own
        # rotate() + translate() on the container, as in the docstring example of superimpose()
        case["via"] = draw(st.sampled_from(["model"] * 7 + ["struc_rotate"]))
        case["angles"] = draw(st.lists(st.floats(-math.pi, math.pi), min_size=3, max_size=3))
        return case

    return gen()


def build_pair(case, rng):
    extent = 10.0 ** case["log_extent"]
    X = make_points(rng, case["n"], case["shape"], case["thin"], case.get("grid")) * extent
    F = X + offset_vec(rng, case["off_f"])
    if case.get("via", "model") == "struc_rotate":
        # the copy in place (noise / reflection only); run_fit moves it with struc.rotate / struc.translate
        M = derive_mobile(rng, X, extent, case["kind"], case["noise"], "identity", np.zeros(3))
    else:
        M = derive_mobile(rng, X, extent, case["kind"], case["noise"], case["rot"], offset_vec(rng, case["off_m"]))
    return F, M, extent


def run_fit(case):
    import biotite.structure as struc

    o = Outcome()
    rng = np.random.default_rng(case["seed"])
    n = case["n"]
    F64, M64, extent = build_pair(case, rng)
    fixed = to_container(F64, case["cont_f"])
    mobile = to_container(M64, case["cont_m"])
    via_struc = case.get("via", "model") == "struc_rotate"
    S_extra = 0.0
    if via_struc:
        S_extra = max_abs(coords64(mobile))
        moved = struc.translate(struc.rotate(mobile, case["angles"]), offset_vec(rng, case["off_m"]))
        if not o.check(
            type(moved) is type(mobile) and tuple(coords64(moved).shape) == (n, 3),
            "rigid_motion_helpers",
            lambda: f"translate(rotate(x)) returned {type(moved).__name__} of shape {np.shape(coords64(moved))}",
        ):
            return o
        o.check(bool(np.array_equal(coords64(mobile), M64 if case["cont_m"] == "f8" else M64.astype(np.float32).astype(np.float64))), "inputs_not_modified", "rotate()/translate() changed their input")
        mobile = moved
    mask = make_mask(case, n)
    F = coords64(fixed)
    M = coords64(mobile)
    mobile_before = M.copy()
    fixed_before = F.copy()

    if mask is None:
        fitted, tr = struc.superimpose(fixed, mobile)
        sel = np.ones(n, dtype=bool)
    else:
        fitted, tr = struc.superimpose(fixed, mobile, atom_mask=mask)
        sel = mask
    k = int(sel.sum())

    # ---- what comes back
    if case["cont_m"] == "atoms":
        if not o.check(isinstance(fitted, struc.AtomArray), "fitted_is_copy_of_mobile", f"type {type(fitted).__name__}"):
            return o
        o.check(fitted is not mobile, "fitted_is_copy_of_mobile", "the mobile AtomArray itself was returned")
        o.check(
            bool(np.array_equal(fitted.res_id, mobile.res_id)) and fitted.array_length() == n,
            "fitted_is_copy_of_mobile",
            "annotations / length changed",
        )
    else:
        if not o.check(isinstance(fitted, np.ndarray), "fitted_is_copy_of_mobile", f"type {type(fitted).__name__}"):
            return o
    fit64 = coords64(fitted)
    if not o.check_eq(tuple(fit64.shape), (n, 3), "fitted_is_copy_of_mobile", "fitted shape"):
        return o
    o.check(bool(np.array_equal(coords64(mobile), mobile_before)), "inputs_not_modified", "mobile changed")
    o.check(bool(np.array_equal(coords64(fixed), fixed_before)), "inputs_not_modified", "fixed changed")
    if not o.check(bool(np.all(np.isfinite(fit64))), "fitted_finite", "non-finite fitted coordinates"):
        return o
    if not check_transform_shape(o, tr, 1):
        return o

    # ---- proper rotation
    if not check_proper_rotation(o, tr.rotation[0]):
        return o
    prm = params64(tr, 0, 1)

    # ---- optimality over the masked atoms
    S = max(max_abs(F, M), S_extra)
    exact = case["kind"] == "rigid"
    # (struc.rotate works on the float32 coordinates: two more roundings of an exact copy)
    ref, got, (tolA, tolB, kappa) = check_optimal(
        o, F[sel], M[sel], fit64[sel], S, "superimpose", exact=exact, extra_roundings=2.0 if via_struc else 0.0
    )
    if case["kind"] == "reflected" and mask is None:
        # closed form for a mirror image: 2 * RMS thickness along the thinnest principal axis
        a = np.linalg.svd(F - F.mean(axis=0), compute_uv=False)
        want = 2.0 * float(a[-1]) / math.sqrt(n)
        o.check(
            abs(got - want) <= tolA + tolB + 4 * EPS32 * S + 1e-9 * extent,
            "rmsd_minimal",
            lambda: f"mirror image: rmsd {got:.9g}, closed form 2*sigma3/sqrt(n) = {want:.9g}",
        )

    # ---- the transformation is what was applied, for all atoms, and equals its matrix form
    check_rigid(o, M, fit64, prm, S, "superimpose")
    perturbation_probe(o, F[sel], M[sel], prm, tolA + 2 * tolB, rng, max(ref["Lf"], ref["Lm"], EPS32 * S), 200, "superimpose")
    other = make_points(rng, 5, "general", 1.0) * extent * 10 ** rng.uniform(-1, 1) + offset_vec(rng, case["off_m"])
    check_matrix_form(o, tr, 1, [np.concatenate([M, other])], "superimpose")
    again = tr.apply(mobile)
    o.check(type(again) is type(fitted), "transformation_reproduces_fitted", f"apply() returned {type(again).__name__}")
    err = float(np.max(np.abs(coords64(again) - fit64)))
    o.check(
        err <= C_APPLY * EPS32 * S,
        "transformation_reproduces_fitted",
        lambda: f"transformation.apply(mobile) differs from the fitted coordinates by {err:.3g}",
    )

    # ---- rmsd() itself
    r_bio = struc.rmsd(fixed[sel], fitted[sel])
    r_tol = 8 * EPS32 * S + 1e-5 * got
    o.check(
        np.ndim(r_bio) == 0 and abs(float(r_bio) - got) <= r_tol,
        "rmsd_function_matches_definition",
        lambda: f"rmsd() = {r_bio!r}, float64 definition {got:.9g} (tol {r_tol:.3g})",
    )

    # ---- labels
    rank = numeric_rank(F[sel], S)
    o.label(f"shape={case['shape']}", f"rank={rank}", f"kind={case['kind']}", f"rot={case['rot']}")
    o.label("mask" if mask is not None and k < n else "nomask")
    if mask is not None and k == 1:
        o.label("mask_single_atom")
    if mask is not None and k == n:
        o.label("mask_selects_all")
    if mask is not None and 2 <= k < n:
        o.label("mask_2..n-1_atoms")
    if exact and rank < 3 and k >= 3:
        o.label("exact_degenerate")  # 'RMSD zero also for planar, collinear or mirror-ambiguous sets'
    if exact and case["shape"] in ("mirror", "iso") and k >= 4:
        o.label("exact_symmetric_set")
    o.label("mobile_via_struc_rotate" if via_struc else "mobile_via_model")
    o.label(f"cont={case['cont_f']}/{case['cont_m']}")
    o.label("n=1" if n == 1 else "n=2" if n == 2 else "n=3" if n == 3 else "n>=4")
    o.label("extent<1" if extent < 1 else "extent<100" if extent < 100 else "extent>=100")
    if case["off_f"] > 10 * extent or case["off_m"] > 10 * extent:
        o.label("offset>>extent")
    if case["shape"] in ("line", "plane") and case["thin"] > 0:
        o.label("nearly_degenerate")
    if kappa > 1e3:
        o.label("kappa>1e3")
    if ref["rmsd"] > 100 * (tolA + tolB):
        o.label("rmsd_opt>0")
    noisy = case["kind"] in ("noisy", "reflected_noisy", "unrelated") and (case["noise"] > 0 or case["kind"] == "unrelated")
    o.mark_nontrivial((k >= 4 and rank == 3 and noisy) or (rank < 3 and k >= 2))
    return o


# --------------------------------------------------------------------------
# sub-check 2: stacks and broadcast combinations
# --------------------------------------------------------------------------
def st_stacks(tier):
    @st.composite
    def gen(draw):
        case = draw(st_pointset(tier, shapes=SHAPES_MOSTLY_GENERAL))
        case["seed"] = draw(st.integers(0, 2**32 - 1))
        case["m"] = draw(st.integers(2, 4 if tier == "quick" else 8))
        case["fixed_form"] = draw(st.sampled_from(["array", "array", "stack1", "stackm", "stackm"]))
        case["mobile_form"] = draw(st.sampled_from(["array", "stack1", "stack1", "stackm", "stackm", "stackm", "stackm"]))
        case["kinds"] = draw(st.lists(st.sampled_from(KINDS), min_size=case["m"], max_size=case["m"]))
        case["noise"] = draw(st_noise())
        case["mask"], case["mask_keep"] = draw(st_mask(case["n"]))
        case["cont_f"] = draw(st.sampled_from(["f4", "f8", "atoms"]))
        case["cont_m"] = draw(st.sampled_from(["f4", "f8", "atoms"]))
        return case

    return gen()


def run_stacks(case):
    import biotite.structure as struc

    o = Outcome()
    rng = np.random.default_rng(case["seed"])
    n, m = case["n"], case["m"]
    extent = 10.0 ** case["log_extent"]
    X = make_points(rng, n, case["shape"], case["thin"], case.get("grid")) * extent
    fm = {"array": 1, "stack1": 1, "stackm": m}[case["fixed_form"]]
    mm = {"array": 1, "stack1": 1, "stackm": m}[case["mobile_form"]]
    off_f = offset_vec(rng, case["off_f"])
    # fixed models: the base set, then conformers of it
    Fs = [X + off_f]
    for _ in range(1, fm):
        Fs.append(X + 0.05 * extent * rng.normal(size=X.shape) + off_f)
    Ms = []
    for j in range(mm):
        base = Fs[j if fm > 1 else 0] - off_f
        Ms.append(derive_mobile(rng, base, extent, case["kinds"][j], case["noise"], "random", offset_vec(rng, case["off_m"])))
    F_in = np.stack(Fs) if case["fixed_form"] != "array" else Fs[0]
    M_in = np.stack(Ms) if case["mobile_form"] != "array" else Ms[0]
    fixed = to_container(F_in, case["cont_f"])
    mobile = to_container(M_in, case["cont_m"])
    mask = make_mask(case, n)
    sel = np.ones(n, dtype=bool) if mask is None else mask
    kwargs = {} if mask is None else {"atom_mask": mask}
    F = coords64(fixed).reshape(fm, n, 3)
    M = coords64(mobile).reshape(mm, n, 3)
    S = max_abs(F, M)
    o.label(f"{case['fixed_form']}<-{case['mobile_form']}", f"cont={case['cont_f']}/{case['cont_m']}")
    o.label("mask" if mask is not None and sel.sum() < n else "nomask")

    M_before = M.copy()
    F_before = F.copy()
    if fm != mm and not (case["fixed_form"] == "array" and mm > 1):
        # Unequal model numbers that are not the documented 'one AtomArray / (n,3) array against a stack':
        #  * fixed m models, mobile a single model: m fits cannot be "a copy of mobile" (biotite computes the
        #    m transformations, apply() then refuses the single model);
        #  * fixed a 1-model stack, mobile m models: "if both are AtomArrayStack objects, they must have the
        #    same number of models" - broadcasting the single model is a courtesy.
        # Nothing documents what happens, so a refusal of any kind is accepted; a returned value is checked.
        cls = "fixed_stack_single_mobile" if mm == 1 else "one_model_stack_vs_stack"
        try:
            fitted, tr = struc.superimpose(fixed, mobile, **kwargs)
        except Exception as e:
            o.label(f"{cls}_rejected", f"{cls}_rejected:{type(e).__name__}")
            o.check(
                bool(np.array_equal(coords64(mobile).reshape(mm, n, 3), M_before)) and bool(np.array_equal(coords64(fixed).reshape(fm, n, 3), F_before)),
                "inputs_not_modified",
                "the refused call changed its input",
            )
            return o
        o.label(f"{cls}_accepted")
        out_m = max(fm, mm)
    else:
        fitted, tr = struc.superimpose(fixed, mobile, **kwargs)
        out_m = mm
    o.check(fitted is not mobile, "fitted_is_copy_of_mobile", "the mobile object itself was returned")
    o.check(bool(np.array_equal(coords64(mobile).reshape(mm, n, 3), M_before)), "inputs_not_modified", "mobile changed")
    o.check(bool(np.array_equal(coords64(fixed).reshape(fm, n, 3), F_before)), "inputs_not_modified", "fixed changed")

    # ---- type and shape follow mobile
    if case["cont_m"] == "atoms" and not (fm > 1 and mm == 1):
        want_type = struc.AtomArray if case["mobile_form"] == "array" else struc.AtomArrayStack
        if not o.check(type(fitted) is want_type, "fitted_is_copy_of_mobile", f"type {type(fitted).__name__}"):
            return o
    fit = coords64(fitted)
    want_shape = (n, 3) if (case["mobile_form"] == "array" and out_m == 1) else (out_m, n, 3)
    if not o.check_eq(tuple(fit.shape), want_shape, "fitted_is_copy_of_mobile", "fitted shape"):
        return o
    fit = fit.reshape(out_m, n, 3)
    if not o.check(bool(np.all(np.isfinite(fit))), "fitted_finite", "non-finite fitted coordinates"):
        return o
    if not check_transform_shape(o, tr, out_m):
        return o

    # ---- every model: proper rotation, optimal for its own pair, rigid, == the single-model call
    any_nontrivial = False
    compared = 0
    for j in range(out_m):
        Fj = F[j if fm > 1 else 0]
        Mj = M[j if mm > 1 else 0]
        if not check_proper_rotation(o, tr.rotation[j], f"model {j}"):
            return o
        kind = case["kinds"][j if mm > 1 else 0]
        # the single mobile model was derived from fixed model 0 only; the other fixed models are conformers
        derived_from_Fj = mm > 1 or fm == 1 or j == 0
        rigid_copy = kind == "rigid" and derived_from_Fj
        ref, got, (tolA, tolB, kappa) = check_optimal(
            o, Fj[sel], Mj[sel], fit[j][sel], S, f"model {j}", exact=rigid_copy
        )
        check_rigid(o, Mj, fit[j], params64(tr, j, out_m), S, f"model {j}")
        # model-wise == per-model call
        f1, t1 = struc.superimpose(
            to_container(Fj, "f4"), to_container(Mj, "f4"), **kwargs
        )
        f1 = coords64(f1)
        r_single = rmsd64(Fj[sel], f1[sel])
        o.check(
            abs(r_single - got) <= 2 * (math.sqrt(ref["rmsd"] ** 2 + tolA * tolA) - ref["rmsd"] + tolB),
            "modelwise_equals_single_calls",
            lambda: f"model {j}: rmsd in the stack call {got:.9g}, in a single call {r_single:.9g}",
        )
        # coordinates agree where the rotation is determined by the data
        delta = (C_D0 + C_D1 * ref["k"]) * EPS32
        reach = float(np.max(np.linalg.norm(Mj - Mj[sel].mean(axis=0), axis=1)))
        ctol = 4 * delta * kappa * reach + C_APPLY * EPS32 * S if math.isfinite(kappa) else math.inf
        if ctol <= 1e-2 * max(ref["Lf"], 1e-30):
            err = float(np.max(np.abs(f1 - fit[j])))
            o.check(
                err <= ctol,
                "modelwise_equals_single_calls",
                lambda: f"model {j}: coordinates differ from the single call by {err:.3g} > {ctol:.3g}",
            )
            compared += 1
        rank = numeric_rank(Fj[sel], S)
        if (sel.sum() >= 4 and rank == 3 and not rigid_copy) or (rank < 3 and sel.sum() >= 2):
            any_nontrivial = True
    # ---- matrix form, model-wise, on other coordinates
    others = [
        np.concatenate([M[j if mm > 1 else 0], make_points(rng, 3, "general", 1.0) * extent + offset_vec(rng, case["off_m"])])
        for j in range(out_m)
    ]
    if not (fm > 1 and mm == 1):
        check_matrix_form(o, tr, out_m, others, "stack")
        again = coords64(tr.apply(mobile)).reshape(out_m, n, 3)
        err = float(np.max(np.abs(again - fit)))
        o.check(err <= C_APPLY * EPS32 * S, "transformation_reproduces_fitted", lambda: f"apply(mobile) differs by {err:.3g}")
    # rmsd() on stacks: one value per model, reference must be a single model
    if fm == 1:
        ref_struct = fixed if case["fixed_form"] == "array" else fixed[0]
        r_bio = np.asarray(struc.rmsd(ref_struct[sel], fitted[..., sel] if not isinstance(fitted, np.ndarray) else fitted[..., sel, :]))
        want = np.array([rmsd64(F[0][sel], fit[j][sel]) for j in range(out_m)])
        want = want if fit.shape[0] > 1 or case["mobile_form"] != "array" else want[0]
        o.check(
            r_bio.shape == np.shape(want) and bool(np.all(np.abs(r_bio - want) <= 8 * EPS32 * S + 1e-5 * np.abs(want))),
            "rmsd_function_matches_definition",
            lambda: f"rmsd() = {r_bio.tolist()}, float64 definition {np.asarray(want).tolist()}",
        )
    o.label(f"m={m}" if max(fm, mm) > 1 else "m=1")
    o.label("coords_compared" if compared == out_m else "coords_some_ill_conditioned")
    o.mark_nontrivial(any_nontrivial and max(fm, mm) > 1)
    return o


# --------------------------------------------------------------------------
# sub-check 3: superimpose_without_outliers
# --------------------------------------------------------------------------
def st_outliers(tier):
    @st.composite
    def gen(draw):
        case = draw(st_pointset(tier, shapes=SHAPES_MOSTLY_GENERAL))
        n = case["n"]
        case["seed"] = draw(st.integers(0, 2**32 - 1))
        case["noise"] = draw(st_noise())
        case["outliers"] = draw(st.lists(st.integers(0, max(n - 1, 0)), max_size=max(1, n // 3)))
        case["out_scale"] = draw(st.floats(0.0, 2.0).map(lambda e: 10.0**e))  # x noise level / extent
        case["min_anchors"] = draw(st.integers(1, 8))
        case["max_iterations"] = draw(st.sampled_from([1, 2, 3, 10, 10]))
        q = sorted(draw(st.lists(st.sampled_from([0.0, 0.1, 0.25, 0.5, 0.75, 0.9, 1.0]), min_size=2, max_size=2)))
        # documented is "(lower, upper)"; the reversed order (1 of 5) is a courtesy biotite may refuse
        case["quantiles"] = q if draw(st.integers(0, 4)) > 0 else q[::-1]
        case["threshold"] = draw(st.sampled_from([0.0, 0.5, 1.5, 1.5, 3.0]))
        case["defaults"] = draw(st.integers(0, 3)) == 0
        case["m"] = draw(st.sampled_from([0, 0, 1, 2, 3]))  # 0: mobile is a single array
        case["fixed_stack"] = draw(st.booleans())
        case["cont"] = draw(st.sampled_from(["f4", "f8", "atoms"]))
        return case

    return gen()


def run_outliers(case):
    import biotite.structure as struc

    o = Outcome()
    rng = np.random.default_rng(case["seed"])
    n = case["n"]
    extent = 10.0 ** case["log_extent"]
    X = make_points(rng, n, case["shape"], case["thin"], case.get("grid")) * extent
    off_f = offset_vec(rng, case["off_f"])
    mm = max(case["m"], 1)
    fixed_stack = case["fixed_stack"] and case["m"] >= 1
    Fs = [X + off_f] + [X + 0.02 * extent * rng.normal(size=X.shape) + off_f for _ in range(mm - 1)]
    Ms = []
    out_idx = sorted(set(i % n for i in case["outliers"]))
    for j in range(mm):
        Y = (Fs[j] if fixed_stack else Fs[0]) - off_f
        Y = Y + case["noise"] * extent * rng.normal(size=Y.shape)
        for i in out_idx:
            Y[i] += _unit(rng.normal(size=3)) * case["out_scale"] * max(case["noise"], 1e-3) * extent * 5
        Ms.append((Y - Y.mean(axis=0)) @ rand_rotation(rng).T + Y.mean(axis=0) + offset_vec(rng, case["off_m"]))
    F_in = np.stack(Fs) if fixed_stack else Fs[0]
    M_in = np.stack(Ms) if case["m"] >= 1 else Ms[0]
    fixed = to_container(F_in, case["cont"])
    mobile = to_container(M_in, case["cont"])
    fm = mm if fixed_stack else 1
    F = coords64(fixed).reshape(fm, n, 3)
    M = coords64(mobile).reshape(mm, n, 3)
    S = max_abs(F, M)

    M_before = M.copy()
    F_before = F.copy()
    if case["defaults"]:
        min_anchors, max_iter = 3, 10
        call = lambda: struc.superimpose_without_outliers(fixed, mobile)  # noqa: E731
        reversed_q = False
    else:
        min_anchors, max_iter = case["min_anchors"], case["max_iterations"]
        reversed_q = case["quantiles"][0] > case["quantiles"][1]
        call = lambda: struc.superimpose_without_outliers(  # noqa: E731
            fixed,
            mobile,
            min_anchors=min_anchors,
            max_iterations=max_iter,
            quantiles=tuple(case["quantiles"]),
            outlier_threshold=case["threshold"],
        )
    if n < min_anchors or reversed_q:
        # Not covered by the documentation: fewer atoms than min_anchors (superimpose_homologs refuses that),
        # quantiles given as (upper, lower).  A refusal is accepted, a result is checked like any other.
        why = "fewer_atoms_than_min_anchors" if n < min_anchors else "reversed_quantiles"
        try:
            fitted, tr, anchors = call()
        except Exception as e:
            o.label(f"{why}_rejected", f"{why}_rejected:{type(e).__name__}")
            o.check(
                bool(np.array_equal(coords64(mobile).reshape(mm, n, 3), M_before)) and bool(np.array_equal(coords64(fixed).reshape(fm, n, 3), F_before)),
                "inputs_not_modified",
                "the refused call changed its input",
            )
            return o
        o.label(f"{why}_accepted")
    else:
        fitted, tr, anchors = call()
    o.check(fitted is not mobile, "fitted_is_copy_of_mobile", "the mobile object itself was returned")
    o.check(bool(np.array_equal(coords64(mobile).reshape(mm, n, 3), M_before)), "inputs_not_modified", "mobile changed")
    o.check(bool(np.array_equal(coords64(fixed).reshape(fm, n, 3), F_before)), "inputs_not_modified", "fixed changed")
    # ---- anchors are valid atom indices
    anchors = np.asarray(anchors)
    ok = o.check(anchors.ndim == 1 and anchors.dtype.kind in "iu", "anchors_valid_indices", f"anchors {anchors!r}")
    if not ok:
        return o
    ok = o.check(
        len(anchors) >= 1 and int(anchors.min()) >= 0 and int(anchors.max()) < n and len(np.unique(anchors)) == len(anchors),
        "anchors_valid_indices",
        lambda: f"anchors {anchors.tolist()} for {n} atoms",
    )
    if not ok:
        return o
    o.check(
        len(anchors) >= min(min_anchors, n),
        "at_least_min_anchors",
        lambda: f"{len(anchors)} anchors < min_anchors={min_anchors} (n={n})",
    )
    if max_iter == 1:
        o.check(len(anchors) == n, "no_removal_with_one_iteration", lambda: f"max_iterations=1 but anchors {anchors.tolist()}")
    # ---- type / shape
    if case["cont"] == "atoms":
        want_type = struc.AtomArrayStack if case["m"] >= 1 else struc.AtomArray
        if not o.check(type(fitted) is want_type, "fitted_is_copy_of_mobile", f"type {type(fitted).__name__}"):
            return o
    fit = coords64(fitted)
    if not o.check_eq(tuple(fit.shape), tuple(np.shape(M_in)), "fitted_is_copy_of_mobile", "fitted shape"):
        return o
    fit = fit.reshape(mm, n, 3)
    if not check_transform_shape(o, tr, mm):
        return o
    # ---- the reported fit is the optimal one for the reported anchors
    compared = 0
    for j in range(mm):
        Fj = F[j if fm > 1 else 0]
        if not check_proper_rotation(o, tr.rotation[j], f"model {j}"):
            return o
        ref, got, (tolA, tolB, kappa) = check_optimal(o, Fj[anchors], M[j][anchors], fit[j][anchors], S, f"anchors, model {j}")
        check_rigid(o, M[j], fit[j], params64(tr, j, mm), S, f"model {j}")
        # == superimpose() on exactly these atoms
        f1, t1 = struc.superimpose(to_container(Fj[anchors], "f4"), to_container(M[j][anchors], "f4"))
        r_single = rmsd64(Fj[anchors], coords64(f1))
        o.check(
            abs(r_single - got) <= 2 * (math.sqrt(ref["rmsd"] ** 2 + tolA * tolA) - ref["rmsd"] + tolB),
            "transform_is_fit_of_anchors",
            lambda: f"model {j}: rmsd over anchors {got:.9g}, superimpose() on the anchors gives {r_single:.9g}",
        )
        delta = (C_D0 + C_D1 * ref["k"]) * EPS32
        reach = float(np.max(np.linalg.norm(M[j] - M[j][anchors].mean(axis=0), axis=1)))
        ctol = 4 * delta * kappa * reach + C_APPLY * EPS32 * S if math.isfinite(kappa) else math.inf
        if ctol <= 1e-2 * max(ref["Lf"], 1e-30):
            applied = coords64(t1.apply(M[j].astype(np.float32)))
            err = float(np.max(np.abs(applied - fit[j])))
            o.check(
                err <= ctol,
                "transform_is_fit_of_anchors",
                lambda: f"model {j}: fitted differs from superimpose(anchors).apply(mobile) by {err:.3g} > {ctol:.3g}",
            )
            compared += 1
    check_matrix_form(o, tr, mm, [M[j] for j in range(mm)], "without_outliers")
    o.label("coords_compared" if compared == mm else "coords_some_ill_conditioned")
    o.label("defaults" if case["defaults"] else "params", f"cont={case['cont']}")
    o.label("mobile_array" if case["m"] == 0 else f"mobile_stack{mm}", "fixed_stack" if fixed_stack else "fixed_array")
    removed = n - len(anchors)
    o.label("removed=0" if removed == 0 else "removed>0")
    if out_idx and removed:
        hit = len(set(out_idx) & (set(range(n)) - set(anchors.tolist())))
        o.label("planted_outlier_removed" if hit else "planted_outlier_kept")
    if len(anchors) == min(min_anchors, n) and removed:
        o.label("stopped_at_min_anchors")
    o.mark_nontrivial(removed > 0 and n >= 4)
    return o


# --------------------------------------------------------------------------
# sub-check 4: superimpose_homologs on synthetic chains
# --------------------------------------------------------------------------
PEPTIDES = ["ALA", "GLY", "SER", "CYS", "PHE", "LYS"]
NUCLEOTIDES = ["A", "C", "G", "U", "DA", "DT"]


def st_chain(tier):
    lmax = 25 if tier == "quick" else 60

    @st.composite
    def gen(draw):
        nuc = draw(st.integers(0, 3)) == 0
        alphabet = NUCLEOTIDES if nuc else PEPTIDES
        seq = draw(st.one_of(st.lists(st.integers(0, len(alphabet) - 1), min_size=1, max_size=lmax), st.lists(st.integers(0, len(alphabet) - 1), min_size=6, max_size=lmax)))
        # edit script for the mobile chain: per fixed residue keep / substitute / delete, insertions before it
        edits = draw(
            st.lists(
                st.tuples(st.sampled_from(["keep"] * 8 + ["sub", "del", "ins"]), st.integers(0, len(alphabet) - 1)),
                min_size=len(seq),
                max_size=len(seq),
            )
        )
        return {"nuc": nuc, "seq": seq, "edits": [list(e) for e in edits], "hetero": draw(st.integers(0, 5)) == 0}

    return gen()


def st_homologs(tier):
    @st.composite
    def gen(draw):
        chains = draw(st.lists(st_chain(tier), min_size=1, max_size=3))
        return {
            "seed": draw(st.integers(0, 2**32 - 1)),
            "chains": chains,
            "noise": draw(st.one_of(st.just(0.0), st.floats(0.0, 2.0))),
            "outlier_frac": draw(st.sampled_from([0.0, 0.0, 0.1, 0.3])),
            "min_anchors": draw(st.sampled_from([1, 2, 3, 3, 3, 3, 5, 8])),
            # 1 of 8: min_anchors = (smaller number of backbone atoms) - 0/1, reduced in run(): the boundary
            # between alignment anchors, the documented fallback and the documented rejection
            "min_anchors_rel": draw(st.sampled_from([None] * 14 + [0, 1])),
            "gap": draw(st.sampled_from([-10, -10, -5, [-10, -1]])),
            "terminal": draw(st.booleans()),
            "matrix": draw(st.sampled_from([None, None, None, None, "named", "named", "object"])),
            "max_iterations": draw(st.sampled_from([None, None, 1, 3])),
            # the remaining **kwargs of superimpose_without_outliers
            "quantiles": draw(st.sampled_from([None, None, None, [0.1, 0.9], [0.25, 0.5]])),
            "threshold": draw(st.sampled_from([None, None, None, 0.5, 3.0])),
            "stack": draw(st.sampled_from(["none", "none", "mobile", "both"])),
            "ligand": draw(st.booleans()),
        }

    return gen()


def build_chains(case, rng):
    """Returns (fixed AtomArray, mobile AtomArray, info)."""
    import biotite.structure as struc

    f_atoms, m_atoms = [], []
    per_f, per_m = [], []
    types = []
    for ci, ch in enumerate(case["chains"]):
        nuc = ch["nuc"]
        types.append("nuc" if nuc else "pep")
        alphabet = NUCLEOTIDES if nuc else PEPTIDES
        names = ["P", "C4'", "C1'"] if nuc else ["N", "CA", "C", "O"]
        step = 6.0 if nuc else 3.8
        pos = rng.normal(size=3) * 30
        cid = "ABCDEF"[ci]
        mid = "UVWXYZ"[ci]  # the specific chain IDs can be different
        m_res = 0
        n_anchor_f = n_anchor_m = 0
        hetero_at = len(ch["seq"]) // 2 if ch["hetero"] and len(ch["seq"]) >= 3 else -1
        for ri, code in enumerate(ch["seq"]):
            pos = pos + _unit(rng.normal(size=3)) * step
            local = [pos + rng.normal(size=3) * 0.7 * (a not in ("CA", "P")) for a in names]
            op, arg = ch["edits"][ri]
            rn = alphabet[code]
            if ri == hetero_at:
                rn = "LIG"  # hetero residue inside the chain: no anchor, 'X'/'N' in the sequence
            for a, xyz in zip(names, local):
                f_atoms.append(struc.Atom(xyz, chain_id=cid, res_id=ri + 1, res_name=rn, atom_name=a, element=a[0], hetero=rn == "LIG"))
            if rn != "LIG":
                n_anchor_f += 1
            if op == "ins":
                m_res += 1
                ip = pos + rng.normal(size=3) * 3
                irn = alphabet[arg]
                for a in names:
                    m_atoms.append(struc.Atom(ip + rng.normal(size=3) * 0.7, chain_id=mid, res_id=m_res, res_name=irn, atom_name=a, element=a[0]))
                n_anchor_m += 1
            if op == "del":
                continue
            m_res += 1
            mrn = alphabet[arg] if op == "sub" and rn != "LIG" else rn
            shift = rng.normal(size=3) * case["noise"]
            if rng.random() < case["outlier_frac"]:
                shift = shift + _unit(rng.normal(size=3)) * rng.uniform(8, 30)
            for a, xyz in zip(names, local):
                m_atoms.append(struc.Atom(xyz + shift, chain_id=mid, res_id=m_res, res_name=mrn, atom_name=a, element=a[0], hetero=mrn == "LIG"))
            if mrn != "LIG":
                n_anchor_m += 1
        per_f.append(n_anchor_f)
        per_m.append(n_anchor_m)
    if case["ligand"]:
        # a ligand with an atom called CA and a water: never anchors
        for lst, cid in ((f_atoms, "L"), (m_atoms, "L")):
            p = rng.normal(size=3) * 20
            lst.append(struc.Atom(p, chain_id=cid, res_id=900, res_name="LIG", atom_name="CA", element="C", hetero=True))
            lst.append(struc.Atom(p + 1.0, chain_id=cid, res_id=901, res_name="HOH", atom_name="O", element="O", hetero=True))
    fixed = struc.array(f_atoms) if f_atoms else struc.AtomArray(0)
    mobile = struc.array(m_atoms) if m_atoms else struc.AtomArray(0)
    info = {
        "n_anchor_f": sum(per_f),
        "n_anchor_m": sum(per_m),
        "per_f": per_f,
        "per_m": per_m,
        "types": types,
        # a chain without any anchor atom disappears from the chain pairing
        "chain_lost": min(per_f) == 0 or min(per_m) == 0,
    }
    # rigid motion of the mobile structure
    if mobile.array_length():
        R = rand_rotation(rng)
        mobile.coord = (np.array(mobile.coord, dtype=np.float64) @ R.T + rng.normal(size=3) * 50).astype(np.float32)
    return fixed, mobile, info


def anchor_atom_mask(atoms):
    pep = np.isin(atoms.res_name, PEPTIDES) & (atoms.atom_name == "CA")
    nuc = np.isin(atoms.res_name, NUCLEOTIDES) & (atoms.atom_name == "P")
    return pep | nuc


ONE_LETTER = {"ALA": "A", "GLY": "G", "SER": "S", "CYS": "C", "PHE": "F", "LYS": "K",
              "A": "A", "C": "C", "G": "G", "U": "T", "DA": "A", "DT": "T"}  # fmt: skip


def homolog_matrix(case, types):
    """(kwargs value, {chain type: SubstitutionMatrix used for that type}) for the case's matrix option."""
    import biotite.sequence as seq
    import biotite.sequence.align as align

    mixed = len(set(types)) > 1
    kind = case.get("matrix")
    pep_alph = seq.ProteinSequence.alphabet
    std = {"pep": align.SubstitutionMatrix.std_protein_matrix(), "nuc": align.SubstitutionMatrix.std_nucleotide_matrix()}
    if kind is None or mixed:  # "Must fit the chain type": one matrix cannot fit peptide + nucleic acid chains
        return None, std
    if kind == "named":
        if types[0] == "nuc":
            return "NUC", std
        return "BLOSUM50", {"pep": align.SubstitutionMatrix(pep_alph, pep_alph, "BLOSUM50")}
    if types[0] == "nuc":
        return std["nuc"], std
    m = align.SubstitutionMatrix(pep_alph, pep_alph, "PAM250")
    return m, {"pep": m}


def min_alignment_anchors(case, fixed, mobile, types, matrices, cap=64):
    """
    Smallest number of anchors "found by sequence alignment" (aligned residue pairs with a positive score,
    summed over the chains) over the optimal alignments of every chain pair; None = not decidable here
    (more than `cap` co-optimal alignments).  Only used to judge whether the documented rejection
    (fallback with unequal numbers of backbone atoms) was possible.
    """
    import biotite.sequence as seq
    import biotite.sequence.align as align

    gap = case["gap"]
    gap = tuple(gap) if isinstance(gap, list) else gap
    total = 0
    for ci, typ in enumerate(types):
        seqs = []
        for atoms, ids in ((fixed, "ABCDEF"), (mobile, "UVWXYZ")):
            names = atoms.res_name[anchor_atom_mask(atoms) & (atoms.chain_id == ids[ci])]
            text = "".join(ONE_LETTER[r] for r in names)
            seqs.append(seq.NucleotideSequence(text) if typ == "nuc" else seq.ProteinSequence(text))
        matrix = matrices[typ]
        alis = align.align_optimal(seqs[0], seqs[1], matrix, gap, terminal_penalty=case["terminal"], max_number=cap)
        if len(alis) >= cap:
            return None
        score = matrix.score_matrix()
        counts = []
        for ali in alis:
            tr = ali.trace[(ali.trace != -1).all(axis=1)]
            counts.append(int(np.count_nonzero(score[seqs[0].code[tr[:, 0]], seqs[1].code[tr[:, 1]]] > 0)))
        total += min(counts)
    return total


def run_homologs(case):
    import biotite.structure as struc

    o = Outcome()
    rng = np.random.default_rng(case["seed"])
    fixed, mobile, info = build_chains(case, rng)
    types = info["types"]
    if info["chain_lost"] or mobile.array_length() == 0:
        # "Must contain the same number of chains as fixed"
        o.invalid = True
        o.label("chain_deleted_completely")
        return o
    nf, nm = info["n_anchor_f"], info["n_anchor_m"]
    min_anchors = case["min_anchors"]
    if case.get("min_anchors_rel") is not None:
        min_anchors = max(1, min(nf, nm) - case["min_anchors_rel"])
        o.label("min_anchors_near_backbone_count")
    kwargs = {"min_anchors": min_anchors, "terminal_penalty": case["terminal"]}
    gap = case["gap"]
    kwargs["gap_penalty"] = tuple(gap) if isinstance(gap, list) else gap
    matrix_arg, matrices = homolog_matrix(case, types)
    if matrix_arg is not None:
        kwargs["substitution_matrix"] = matrix_arg
        o.label("matrix=name" if isinstance(matrix_arg, str) else "matrix=object")
    else:
        o.label("matrix=default")
    if case["max_iterations"] is not None:
        kwargs["max_iterations"] = case["max_iterations"]
    if case.get("quantiles") is not None:
        kwargs["quantiles"] = tuple(case["quantiles"])
    if case.get("threshold") is not None:
        kwargs["outlier_threshold"] = case["threshold"]
    if case.get("quantiles") is not None or case.get("threshold") is not None:
        o.label("kwargs_quantiles_or_threshold")
    mm = 1
    fixed_in, mobile_in = fixed, mobile
    if case["stack"] in ("mobile", "both"):
        mm = 2
        second = mobile.copy()
        second.coord = second.coord + rng.normal(size=second.coord.shape).astype(np.float32) * 0.3
        mobile_in = struc.stack([mobile, second])
        if case["stack"] == "both":
            second = fixed.copy()
            second.coord = second.coord + rng.normal(size=second.coord.shape).astype(np.float32) * 0.3
            fixed_in = struc.stack([fixed, second])
    fm = 2 if case["stack"] == "both" else 1
    o.label("+".join(sorted(set(types))), f"chains={len(types)}", f"stack={case['stack']}")
    M_before = coords64(mobile_in)
    F_before = coords64(fixed_in)

    too_few = nf < min_anchors or nm < min_anchors
    try:
        fitted, tr, fix_idx, mob_idx = struc.superimpose_homologs(fixed_in, mobile_in, **kwargs)
    except Exception as e:
        # "an exception is raised" - neither the type nor the text is documented, so the refusal is judged
        # by the situation it occurs in, not by what it says.
        if too_few:
            # a structure has fewer backbone representatives than the required number of anchors
            o.label("rejected_too_few_backbone_atoms", f"rejected_too_few:{type(e).__name__}")
        elif nf != nm:
            # documented: fewer than min_anchors anchors from the alignment -> all backbone atoms are
            # matched -> exception if their numbers differ.  Possible only if some optimal alignment
            # yields < min_anchors positively scoring pairs.
            o.label("rejected_fallback_size_mismatch", f"rejected_fallback:{type(e).__name__}")
            try:
                least = min_alignment_anchors(case, fixed, mobile, types, matrices)
            except Exception:
                least = None
            if least is None:
                o.label("rejected_fallback_not_decidable")
            else:
                o.check(
                    least < min_anchors,
                    "documented_rejections_only",
                    lambda: f"{type(e).__name__}: {e} - but every optimal alignment yields >= {least} anchors, min_anchors={min_anchors} (backbone atoms {nf}/{nm})",
                )
        else:
            raise
        o.check(
            bool(np.array_equal(coords64(mobile_in), M_before)) and bool(np.array_equal(coords64(fixed_in), F_before)),
            "inputs_not_modified",
            "the refused call changed its input",
        )
        return o
    if too_few:
        # not refused: acceptable only as the documented fallback "matches all anchor atoms"
        o.label("too_few_backbone_atoms_accepted")
    o.check(fitted is not mobile_in, "fitted_is_copy_of_mobile", "the mobile object itself was returned")
    o.check(bool(np.array_equal(coords64(mobile_in), M_before)), "inputs_not_modified", "mobile changed")
    o.check(bool(np.array_equal(coords64(fixed_in), F_before)), "inputs_not_modified", "fixed changed")
    fix_idx = np.asarray(fix_idx)
    mob_idx = np.asarray(mob_idx)
    # ---- anchors
    ok = o.check(
        fix_idx.ndim == 1 and mob_idx.ndim == 1 and fix_idx.dtype.kind in "iu" and mob_idx.dtype.kind in "iu" and len(fix_idx) == len(mob_idx),
        "anchors_valid_indices",
        lambda: f"fixed anchors {fix_idx!r}, mobile anchors {mob_idx!r}",
    )
    if not ok:
        return o
    ok = o.check(len(fix_idx) >= 1, "anchors_valid_indices", "no anchors")
    for name, idx, atoms in (("fixed", fix_idx, fixed), ("mobile", mob_idx, mobile)):
        ok &= o.check(
            len(idx) > 0 and int(idx.min()) >= 0 and int(idx.max()) < atoms.array_length() and len(np.unique(idx)) == len(idx),
            "anchors_valid_indices",
            lambda: f"{name} anchors {idx.tolist()} for {atoms.array_length()} atoms",
        )
        if ok:
            o.check(
                bool(np.all(anchor_atom_mask(atoms)[idx])),
                "anchors_are_backbone_representatives",
                lambda: f"{name} anchors {idx.tolist()} include atoms that are not CA of an amino acid / P of a nucleotide",
            )
    if not ok:
        return o
    o.check(
        len(fix_idx) >= min(min_anchors, nf, nm),
        "at_least_min_anchors",
        lambda: f"{len(fix_idx)} anchors < min_anchors={min_anchors} (backbone atoms {nf}/{nm})",
    )
    if not o.ok:
        return o
    # anchors pair residues of corresponding chains (same order of chains)
    f_chain = np.array(["ABCDEF".index(c) for c in fixed.chain_id[fix_idx]])
    m_chain = np.array(["UVWXYZ".index(c) for c in mobile.chain_id[mob_idx]])
    fallback = len(fix_idx) == nf == nm
    if nf != nm or info["per_f"] == info["per_m"]:
        # (the documented fallback pairs all backbone atoms by position; only then chains may cross)
        o.check(bool(np.array_equal(f_chain, m_chain)), "anchors_pair_corresponding_chains", lambda: f"{f_chain.tolist()} vs {m_chain.tolist()}")
    # ---- fitted: a copy of mobile
    want_type = struc.AtomArrayStack if mm > 1 else struc.AtomArray
    if not o.check(type(fitted) is want_type, "fitted_is_copy_of_mobile", f"type {type(fitted).__name__}"):
        return o
    if not o.check_eq(tuple(fitted.coord.shape), tuple(mobile_in.coord.shape), "fitted_is_copy_of_mobile", "shape"):
        return o
    o.check(
        bool(np.array_equal(fitted.res_name, mobile.res_name)) and bool(np.array_equal(fitted.atom_name, mobile.atom_name)),
        "fitted_is_copy_of_mobile",
        "annotations changed",
    )
    if not check_transform_shape(o, tr, mm):
        return o
    F = coords64(fixed_in).reshape(fm, -1, 3)
    M = coords64(mobile_in).reshape(mm, -1, 3)
    fit = coords64(fitted).reshape(mm, -1, 3)
    S = max_abs(F, M)
    compared = 0
    for j in range(mm):
        Fj = F[j if fm > 1 else 0]
        if not check_proper_rotation(o, tr.rotation[j], f"model {j}"):
            return o
        ref, got, (tolA, tolB, kappa) = check_optimal(o, Fj[fix_idx], M[j][mob_idx], fit[j][mob_idx], S, f"anchors, model {j}")
        check_rigid(o, M[j], fit[j], params64(tr, j, mm), S, f"model {j}")
        f1, t1 = struc.superimpose(Fj[fix_idx].astype(np.float32), M[j][mob_idx].astype(np.float32))
        r_single = rmsd64(Fj[fix_idx], coords64(f1))
        o.check(
            abs(r_single - got) <= 2 * (math.sqrt(ref["rmsd"] ** 2 + tolA * tolA) - ref["rmsd"] + tolB),
            "transform_is_fit_of_anchors",
            lambda: f"model {j}: rmsd over anchors {got:.9g}, superimpose() on the anchors gives {r_single:.9g}",
        )
        delta = (C_D0 + C_D1 * ref["k"]) * EPS32
        reach = float(np.max(np.linalg.norm(M[j] - M[j][mob_idx].mean(axis=0), axis=1)))
        ctol = 4 * delta * kappa * reach + C_APPLY * EPS32 * S if math.isfinite(kappa) else math.inf
        if ctol <= 1e-2 * max(ref["Lf"], 1e-30):
            applied = coords64(t1.apply(M[j].astype(np.float32)))
            err = float(np.max(np.abs(applied - fit[j])))
            o.check(
                err <= ctol,
                "transform_is_fit_of_anchors",
                lambda: f"model {j}: fitted differs from superimpose(anchors).apply(mobile) by {err:.3g} > {ctol:.3g}",
            )
            compared += 1
    check_matrix_form(o, tr, mm, [M[j] for j in range(mm)], "homologs")
    o.label("coords_compared" if compared == mm else "coords_some_ill_conditioned")
    o.label("all_backbone_atoms_paired" if fallback else "subset_of_backbone_paired")
    dropped = min(nf, nm) - len(fix_idx)
    o.label("anchors<backbone" if dropped > 0 else "anchors=backbone")
    if any(op != "keep" for ch in case["chains"] for op, _ in ch["edits"]):
        o.label("edited_sequence")
    if any(op in ("ins", "del") for ch in case["chains"] for op, _ in ch["edits"]):
        o.label("indel")
    if any(ch["hetero"] for ch in case["chains"]):
        o.label("hetero_in_chain")
    o.mark_nontrivial(dropped > 0 and len(fix_idx) >= 3)
    return o


def setup():
    from fixtures import make_ccd

    make_ccd.use()


# --------------------------------------------------------------------------
# large point sets (size dependent code paths): domain movement in the tail atoms
# --------------------------------------------------------------------------
def st_fit_large(tier):
    sizes = [4097, 4500, 6000, 8193, 9000, 3000, 12289]
    if tier == "thorough":
        sizes += [16385, 20000, 40000]
    return st.fixed_dictionaries(
        {
            "n": st.sampled_from(sizes),
            "seed": st.integers(0, 2**32 - 1),
            "tail": st.sampled_from([0.05, 0.2, 0.4]),
            "shift": st.sampled_from([0.0, 5.0, 20.0]),
            "container": st.sampled_from(["f4", "atoms"]),
            # 1 of 4: atom_mask that leaves out a displaced head segment (> 4096 atoms stay in the fit for n >= 4600)
            "masked": st.sampled_from([False, False, False, True]),
        }
    )


def run_fit_large(case):
    import biotite.structure as struc

    o = Outcome()
    rng = np.random.default_rng(case["seed"])
    n = case["n"]
    X = rng.normal(size=(n, 3)) * np.array([30.0, 20.0, 10.0])
    R = rot_axis_angle(rng.normal(size=3), float(rng.uniform(0.2, 3.0)))
    M = X @ R.T + rng.normal(size=3) * 50.0
    t = int(n * case["tail"])
    # the last t atoms form a "domain" that moved rigidly relative to the rest
    R2 = rot_axis_angle(rng.normal(size=3), 0.6)
    M[n - t :] = (M[n - t :] - M[n - t :].mean(axis=0)) @ R2.T + M[n - t :].mean(axis=0) + case["shift"]
    F32 = X.astype(np.float32)
    M32 = M.astype(np.float32)
    fixed = to_container(F32.astype(np.float64), case["container"])
    mobile = to_container(M32.astype(np.float64), case["container"])
    sel = np.ones(n, dtype=bool)
    if case.get("masked"):
        # the first 10 % of the atoms are thrown far off in mobile and are not part of the fit
        h = n // 10
        M32[:h] += rng.normal(size=(h, 3)).astype(np.float32) * 40.0
        sel[:h] = False
        mobile = to_container(M32.astype(np.float64), case["container"])
        fitted, tr = struc.superimpose(fixed, mobile, atom_mask=sel)
    else:
        fitted, tr = struc.superimpose(fixed, mobile)
    F64 = F32.astype(np.float64)
    ref = kabsch64(F64[sel], M32.astype(np.float64)[sel])
    fit64 = coords64(fitted)
    got = rmsd64(fit64[sel], F64[sel])
    k = int(sel.sum())
    o.label(f"n>{4096 * (n // 4096)}" if n > 4096 else "n<=4096", f"tail={case['tail']}", f"shift={case['shift']}")
    o.label(("masked_k>4096" if k > 4096 else "masked_k<=4096") if case.get("masked") else "nomask")
    rot = np.asarray(tr.rotation, dtype=np.float64).reshape(3, 3)
    o.check(abs(np.linalg.det(rot) - 1.0) < 1e-4 and np.allclose(rot @ rot.T, np.eye(3), atol=1e-4), "rotation_det_plus_one", f"rotation {rot.tolist()}")
    # float32 accumulation over n atoms: relative tolerance 1e-3 on an RMSD of several Angstrom
    o.check(
        got <= ref["rmsd"] * (1 + 1e-3) + 1e-3,
        "rmsd_minimal",
        lambda: f"n={n}, {k} atoms in the fit: RMSD after superimpose {got:.6f}, float64 Kabsch optimum {ref['rmsd']:.6f}",
    )
    # rmsd() over many atoms (float32 mean of 3 k terms; same generous relative tolerance)
    r_bio = struc.rmsd(fixed[sel], fitted[sel])
    o.check(
        np.ndim(r_bio) == 0 and abs(float(r_bio) - got) <= 1e-3 * got + 1e-3,
        "rmsd_function_matches_definition",
        lambda: f"n={n}: rmsd() = {r_bio!r}, float64 definition {got:.6f}",
    )
    o.mark_nontrivial(ref["rmsd"] > 0.5)
    return o


# --------------------------------------------------------------------------
# transformations constructed by the caller (as in the class documentation): any array dtype
# --------------------------------------------------------------------------
_SIGNED_PERMS = None


def _proper_signed_permutations():
    global _SIGNED_PERMS
    if _SIGNED_PERMS is None:
        import itertools

        out = []
        for perm in itertools.permutations(range(3)):
            for signs in itertools.product([1, -1], repeat=3):
                R = np.zeros((3, 3), dtype=int)
                for r, (c, sg) in enumerate(zip(perm, signs)):
                    R[r, c] = sg
                if round(float(np.linalg.det(R))) == 1:
                    out.append(R)
        _SIGNED_PERMS = out
    return _SIGNED_PERMS


TRANS_VALUES = [0.0, 0.5, -1.25, 3.75, 10.0, -0.125]


def st_direct_transform(tier):
    vec = st.lists(st.sampled_from(TRANS_VALUES), min_size=3, max_size=3)
    return st.fixed_dictionaries(
        {
            # one entry per model (m = 1..3); the documented parameter shapes are chosen below
            "rots": st.lists(st.integers(0, 23), min_size=1, max_size=3),
            "rot_dtype": st.sampled_from(["int64", "int32", "float32", "float64"]),
            "centers": st.lists(vec, min_size=3, max_size=3),
            "targets": st.lists(vec, min_size=3, max_size=3),
            "center_shape": st.sampled_from(["(3,)", "(m,3)"]),
            "target_shape": st.sampled_from(["(3,)", "(m,3)"]),
            "rot_shape": st.sampled_from(["(3,3)", "(m,3,3)"]),  # (3,3) only for m = 1
            "trans_dtype": st.sampled_from(["float64", "float32", "int64"]),
            "n": st.integers(1, 6),
            "seed": st.integers(0, 2**31 - 1),
            "coord_dtype": st.sampled_from(["float32", "float64", "int64"]),
        }
    )


def run_direct_transform(case):
    import biotite.structure as struc

    o = Outcome()
    if "rots" not in case:  # replay files written before the multi-model form
        case = dict(case, rots=[case["rot"]], centers=[case["center"]] * 3, targets=[case["target"]] * 3,
                    center_shape="(3,)", target_shape="(3,)", rot_shape="(3,3)")  # fmt: skip
    m = len(case["rots"])
    n = case["n"]
    perms = _proper_signed_permutations()
    R = np.stack([perms[i] for i in case["rots"]])  # (m,3,3) int
    # per-model translations, or one vector for all models
    c = np.array(case["centers"][:m] if case["center_shape"] == "(m,3)" else [case["centers"][0]] * m, dtype=np.float64)
    t = np.array(case["targets"][:m] if case["target_shape"] == "(m,3)" else [case["targets"][0]] * m, dtype=np.float64)
    if case["trans_dtype"] == "int64":
        c, t = np.round(c), np.round(t)
    rng = np.random.default_rng(case["seed"])
    X = np.round(rng.normal(0, 5, (m, n, 3)) * 4) / 4  # multiples of 0.25: exact in float32
    c_arg = (c if case["center_shape"] == "(m,3)" else c[0]).astype(case["trans_dtype"])
    t_arg = (t if case["target_shape"] == "(m,3)" else t[0]).astype(case["trans_dtype"])
    R_arg = (R[0] if (m == 1 and case["rot_shape"] == "(3,3)") else R).astype(case["rot_dtype"])
    tr = struc.AffineTransformation(c_arg, R_arg, t_arg)
    coords = X.astype(case["coord_dtype"]) if case["coord_dtype"] != "int64" else np.round(X).astype(np.int64)
    if m == 1:
        coords = coords[0]  # a single model: (n,3) coordinates
    Xv = coords.astype(np.float64).reshape(m, n, 3)
    want = np.stack([(Xv[k] + c[k]) @ R[k].T.astype(np.float64) + t[k] for k in range(m)])
    got = np.asarray(tr.apply(coords), dtype=np.float64)
    o.label("rot=" + case["rot_dtype"], "trans=" + case["trans_dtype"], "coord=" + case["coord_dtype"])
    o.label(f"m={m}", f"rot{R_arg.shape}", f"center{c_arg.shape}", f"target{t_arg.shape}")
    if m > 1 and c_arg.ndim == 1:
        o.label("m_rotations_one_center")
    o.check_eq(tuple(got.shape), tuple(coords.shape), "transformation_reproduces_fitted", "shape of apply(coords)")
    if got.size == want.size:
        got = got.reshape(m, n, 3)
        o.check(bool(np.allclose(got, want, atol=1e-4)), "transformation_reproduces_fitted", lambda: f"apply(): got {got.tolist()}, want R(x+c)+t = {want.tolist()}")
    check_transform_shape(o, tr, m)
    M = np.asarray(tr.as_matrix(), dtype=np.float64)
    if o.check_eq(tuple(M.shape), (m, 4, 4), "matrix_form", "as_matrix() shape"):
        for k in range(m):
            hom = np.concatenate([Xv[k], np.ones((n, 1))], axis=1)
            via = (hom @ M[k].T)[:, :3]
            o.check(bool(np.allclose(via, want[k], atol=1e-4)), "matrix_form", lambda: f"model {k}: as_matrix() applied to homogeneous coordinates {via.tolist()} != apply() {want[k].tolist()} (rotation dtype {case['rot_dtype']})")
            o.check(bool(np.allclose(M[k][3], [0, 0, 0, 1])), "matrix_form", lambda: f"last row {M[k][3].tolist()}")
    o.mark_nontrivial(case["rot_dtype"].startswith("int") and any(v != round(v) for v in list(c.ravel()) + list(t.ravel())))
    return o


SUBS = [
    Sub(
        "direct_transform",
        st_direct_transform,
        run_direct_transform,
        quick=600,
        thorough=20000,
        rule="integer-dtype rotation (as in the class documentation) with fractional translations",
        clauses="a transformation built by the caller from 1..3 models in every documented parameter shape: apply() == R(x+c)+t == 4x4 matrix form model-wise, for every array dtype",
    ),
    Sub(
        "fit",
        st_fit,
        run_fit,
        quick=3200,
        thorough=160000,
        rule=">= 4 masked atoms of rank 3 with noise (optimality) or >= 2 atoms of rank < 3 (degenerate class)",
        clauses="proper rotation; rmsd minimal (float64 Kabsch + 200 perturbations); exact copy -> 0; apply == matrix == fitted; rmsd()",
    ),
    Sub(
        "fit_large",
        st_fit_large,
        run_fit_large,
        quick=64,
        thorough=1200,
        rule="3000..12289 atoms (thorough: up to 40000) with a rigidly displaced tail domain, optimum RMSD > 0.5",
        clauses="rmsd minimal (also under an atom_mask of > 4096 atoms), proper rotation and rmsd() for large atom counts (size dependent code paths)",
    ),
    Sub(
        "stacks",
        st_stacks,
        run_stacks,
        quick=1600,
        thorough=60000,
        rule="a stack on either side and a non-trivial model as in 'fit'",
        clauses="model-wise fit == per-model calls for every array/stack combination; shapes follow mobile; inputs unchanged; unequal model numbers other than array<-stack may be refused",
    ),
    Sub(
        "without_outliers",
        st_outliers,
        run_outliers,
        quick=1600,
        thorough=60000,
        rule=">= 1 atom removed from the anchors, n >= 4",
        clauses="anchors valid, >= min_anchors, transform == superimpose() on the anchors, fit optimal over anchors, inputs unchanged; n < min_anchors / reversed quantiles may be refused",
    ),
    Sub(
        "homologs",
        st_homologs,
        run_homologs,
        quick=1200,
        thorough=40000,
        rule="anchors are a proper subset of the backbone representatives, >= 3 anchors",
        clauses="anchors valid CA/P atoms in corresponding chains, >= min_anchors, transform == superimpose() on the anchors, inputs unchanged; a refusal only with too few backbone atoms or when the documented fallback is impossible",
    ),
]

FINDINGS = {}
