"""
C03  Symbol encoding is a bijection and sequences behave like their strings.

Oracles (all written out here, none taken from biotite):
* an alphabet is a Python list of symbols; code = list index
* a sequence is a Python list of symbols (op-list histories against the list)
* complement = map derived from the IUPAC ambiguity sets
* translation = per-codon dict lookup; ORFs = naive scan over all positions; the NCBI tables are
  stored in /verif/fixtures/c03_ncbi_tables.py (biotite's data file is not read)
* k-mers = naive sliding window with positional radix arithmetic in Python ints
"""

import inspect
import string

import numpy as np
from hypothesis import strategies as st

from fixtures import c03_ncbi_tables
from vlib import Enum, Outcome, Sub, findings

PROPERTY = "C03"
RULE = (
    "alphabets (letter 1..94, generic hashable symbols, k-mer) with symbol/code sequences of length 0..60; "
    "non-trivial = sequence length >= 4 and alphabet size >= 3; for rejection: a symbol/code exactly one step "
    "outside the alphabet (or a wrap point 256*m+valid); for ORFs: >= 1 start codon present in the sequence"
)

PRINTABLES = string.digits + string.ascii_letters + string.punctuation  # the 94 letters
UNAMB = "ACGT"
AMB = "ACGTRYWSMKHBVDN"
PROT = "ACDEFGHIKLMNPQRSTVWYBZX*"
INT_DTYPES = ["uint8", "int8", "uint16", "int16", "uint32", "int32", "uint64", "int64"]
UINT_DTYPES = ["uint8", "uint16", "uint32", "uint64"]

# IUPAC nucleotide ambiguity codes (NC-IUB 1984): code -> set of bases
IUPAC = {
    "A": "A", "C": "C", "G": "G", "T": "T",
    "R": "AG", "Y": "CT", "W": "AT", "S": "CG", "M": "AC", "K": "GT",
    "H": "ACT", "B": "CGT", "V": "ACG", "D": "AGT", "N": "ACGT",
}  # fmt: skip
_BASE_COMPL = {"A": "T", "C": "G", "G": "C", "T": "A"}
_BY_SET = {frozenset(v): k for k, v in IUPAC.items()}
COMPL = {k: _BY_SET[frozenset(_BASE_COMPL[b] for b in v)] for k, v in IUPAC.items()}
# the same table written out literally (self-check of the derivation above)
assert COMPL == {
    "A": "T", "T": "A", "C": "G", "G": "C", "R": "Y", "Y": "R", "W": "W", "S": "S",
    "M": "K", "K": "M", "H": "D", "D": "H", "B": "V", "V": "B", "N": "N",
}  # fmt: skip

THREE = {
    "A": "ALA", "C": "CYS", "D": "ASP", "E": "GLU", "F": "PHE", "G": "GLY", "H": "HIS",
    "I": "ILE", "K": "LYS", "L": "LEU", "M": "MET", "N": "ASN", "P": "PRO", "Q": "GLN",
    "R": "ARG", "S": "SER", "T": "THR", "V": "VAL", "W": "TRP", "Y": "TYR", "B": "ASX",
    "Z": "GLX", "X": "UNK",
}  # fmt: skip

CODONS = [a + b + c for a in UNAMB for b in UNAMB for c in UNAMB]
# NCBI translation table 1 in TCAG order (hard-coded anchor, independent of the data file)
_STD_TCAG = "FFLLSSSSYY**CC*WLLLLPPPPHHQQRRRRIIIMTTTTNNKKSSRRVVVVAAAADDEEGGGG"
STANDARD = {
    a + b + c: _STD_TCAG[16 * i + 4 * j + k]
    for i, a in enumerate("TCAG")
    for j, b in enumerate("TCAG")
    for k, c in enumerate("TCAG")
}
NCBI_IDS = [1, 2, 3, 4, 5, 6, 9, 10, 11, 12, 13, 14, 15, 16, 21, 22, 23, 24, 25, 26, 27, 28, 29, 30, 31]


# --------------------------------------------------------------------------
# small helpers
# --------------------------------------------------------------------------
def _AlphabetError():
    from biotite.sequence import AlphabetError

    return AlphabetError


def _must_reject(o, fn, clause, what, exc=None):
    """fn() must raise `exc` (default AlphabetError).  A returned value and any other
    exception type are violations of `clause`."""
    exc = exc or _AlphabetError()
    try:
        r = fn()
    except exc:
        return True
    except Exception as e:  # noqa: BLE001 - the type itself is the observation
        o.fail(clause, f"{what}: raised {type(e).__name__}: {e} instead of {getattr(exc, '__name__', exc)}")
        return False
    o.fail(clause, f"{what}: returned {r!r:.200} instead of raising")
    return False


def _must_raise_anything(o, fn, clause, what, label=None):
    """Only "an error" is promised (a precondition in a docstring, non-ASCII str input): any
    exception is accepted, a returned value is not.  `label`: prefix of the label that records
    the exception type that occurred."""
    try:
        r = fn()
    except Exception as e:  # noqa: BLE001
        if label:
            o.label(f"{label}={type(e).__name__}")
        return True
    o.fail(clause, f"{what}: returned {r!r:.200} instead of raising")
    return False


def _fits(v, dt):
    info = np.iinfo(dt)
    return info.min <= v <= info.max


def _sym(t):
    """tagged plain data -> hashable symbol"""
    tag, v = t
    if tag == "i":
        return int(v)
    if tag == "s":
        return v
    if tag == "b":
        return bytes.fromhex(v)
    if tag == "t":
        return tuple(_sym(x) for x in v)
    raise ValueError(tag)


def _plain(x):
    """numpy scalars -> python (for comparing decoded symbols)"""
    if isinstance(x, np.str_):
        return str(x)
    if isinstance(x, np.bytes_):
        return bytes(x)
    if isinstance(x, np.generic):
        return x.item()
    return x


def _mk_alphabet(spec):
    """-> (biotite alphabet, list of symbols)"""
    from biotite.sequence import Alphabet, LetterAlphabet

    kind = spec["kind"]
    if kind == "letter":
        s = spec["symbols"]
        ctor = spec.get("ctor", "str")
        if ctor == "list":
            return LetterAlphabet(list(s)), list(s)
        if ctor == "bytes_list":
            return LetterAlphabet([c.encode("ascii") for c in s]), list(s)
        return LetterAlphabet(s), list(s)
    if kind == "generic":
        syms = [_sym(t) for t in spec["symbols"]]
        return Alphabet(syms), syms
    if kind == "range":
        syms = list(range(spec["offset"], spec["offset"] + spec["n"]))
        return Alphabet(syms), syms
    raise ValueError(kind)


def _size_label(n):
    if n == 1:
        return "alph=1"
    if n <= 4:
        return "alph<=4"
    if n <= 32:
        return "alph<=32"
    if n <= 94:
        return "alph<=94"
    if n <= 256:
        return "alph<=256"
    return "alph>256"


def _letter_forms(syms):
    s = "".join(syms)
    bl = [c.encode("ascii") for c in syms]
    return [
        ("str", s),
        ("bytes", s.encode("ascii")),
        ("list", list(syms)),
        ("tuple", tuple(syms)),
        ("list_bytes", bl),
        ("nd_U", np.array(list(syms), dtype="U1")),
        ("nd_S", np.array(bl, dtype="S1")),
        ("nd_U_strided", np.array([c for c in syms for _ in (0, 1)], dtype="U1")[::2]),
    ]


def _code_forms(codes):
    forms = [("list", [int(c) for c in codes])]
    for dt in INT_DTYPES:
        if all(_fits(c, dt) for c in codes):
            forms.append((dt, np.array(codes, dtype=dt)))
    return forms


# --------------------------------------------------------------------------
# strategies: alphabets
# --------------------------------------------------------------------------
_FIXED_LETTER = [UNAMB, AMB, PROT, PRINTABLES, "A", "az", "~!0"]


def _perm_letters(size, seed):
    return "".join(np.random.default_rng(seed).permutation(list(PRINTABLES))[:size].tolist())


def st_letter_spec(max_size=94, min_size=1):
    small = st.lists(
        st.sampled_from(PRINTABLES), min_size=min_size, max_size=max(min_size, min(8, max_size)), unique=True
    ).map("".join)
    big = st.tuples(st.integers(0, 255), st.integers(0, 255)).map(
        lambda t: _perm_letters(min_size + (t[0] + 5) % (max_size - min_size + 1), t[1])
    )
    fixed = st.sampled_from([f for f in _FIXED_LETTER if min_size <= len(f) <= max_size])
    return st.tuples(st.one_of(small, big, fixed), st.sampled_from(["str", "list", "bytes_list"])).map(
        lambda t: {"kind": "letter", "symbols": t[0], "ctor": t[1]}
    )


def st_gsym():
    leaf = st.one_of(
        st.integers(-3, 400).map(lambda v: ["i", v]),
        st.text(alphabet="abAB ,é", max_size=3).map(lambda v: ["s", v]),
        st.binary(max_size=2).map(lambda v: ["b", v.hex()]),
    )
    return st.one_of(leaf, leaf, st.lists(leaf, max_size=3).map(lambda v: ["t", v]))


def st_generic_spec(max_size=12, min_size=1):
    return st.lists(st_gsym(), min_size=min_size, max_size=max_size, unique_by=repr).map(
        lambda l: {"kind": "generic", "symbols": l}
    )


def st_range_spec(lo=1, hi=400):
    sizes = st.one_of(st.integers(lo, hi), st.sampled_from([s for s in (255, 256, 257, 300) if lo <= s <= hi] or [lo]))
    return st.tuples(sizes, st.integers(-5, 5)).map(lambda t: {"kind": "range", "n": t[0], "offset": t[1]})


def st_alphabet_spec(big=True):
    """Mostly alphabets of >= 3 symbols (the non-triviality rule), sometimes 1 or 2."""
    opts = [st_letter_spec(min_size=3), st_letter_spec(min_size=3), st_generic_spec(min_size=3), st_letter_spec(max_size=2), st_generic_spec(max_size=2)]
    if big:
        opts.append(st_range_spec(3, 400))
    return st.one_of(*opts)


def _expand_raws(min_size, max_size, v, block):
    span = max_size - min_size + 1
    # offset: the simplest draw (v == 0) is a typical length, not the shortest one
    n = min_size + ((v + 13) % span if span > 13 else v % span)
    if v % 8 == 7:
        n = min(max_size, max(min_size, (v >> 3) % 3))  # one draw in eight: empty or very short
    return [((block[i % 8] << 8 | block[(i + 3) % 8]) + i * (2 * block[(i + 1) % 8] + 1) * 40503) & 0xFFFF for i in range(n)]


def st_raws(min_size=0, max_size=60):
    """A list of raw integers in 0..65535 (reduced modulo the alphabet size at interpretation
    time), expanded from one length integer and one 8-byte block.  Cheaper than a list of
    integer draws, the length is uniform, and the simplest draw (which Hypothesis' mutation
    phase produces very often) is still a sequence of varying symbols."""
    return st.tuples(st.integers(0, 255), st.binary(min_size=8, max_size=8)).map(
        lambda t: _expand_raws(min_size, max_size, t[0], t[1])
    )


def st_idx(tier, min_size=0):
    return st_raws(min_size, 60 if tier == "quick" else 200)


# --------------------------------------------------------------------------
# (a) encode / decode round trips
# --------------------------------------------------------------------------
def st_roundtrip(tier):
    return st.fixed_dictionaries({"alph": st_alphabet_spec(), "idx": st_idx(tier)})


def run_roundtrip(case):
    o = Outcome()
    alph, syms = _mk_alphabet(case["alph"])
    kind = case["alph"]["kind"]
    n = len(syms)
    idx = [i % n for i in case["idx"]]
    want = [syms[i] for i in idx]
    o.label(kind, _size_label(n), "empty_seq" if not idx else ("len>=4" if len(idx) >= 4 else "len<4"))
    o.mark_nontrivial(len(idx) >= 4 and n >= 3)

    o.check_eq(len(alph), n, "alphabet_symbols", "len(alphabet)")
    o.check_eq(list(alph.get_symbols()), syms, "alphabet_symbols", "get_symbols()")
    # single forms: every used code plus both ends of the alphabet
    for i in sorted(set(idx) | {0, n - 1}):
        o.check_eq(alph.encode(syms[i]), i, "encode_single", f"encode({syms[i]!r})")
        o.check_eq(_plain(alph.decode(i)), syms[i], "decode_single", f"decode({i})")
        o.check_eq(alph.encode(alph.decode(i)), i, "encode_decode_identity", f"code {i}")
        if kind == "letter":
            o.check_eq(alph.encode(syms[i].encode("ascii")), i, "encode_single", f"encode(bytes {syms[i]!r})")
            o.check_eq(alph.decode(np.uint8(i)), syms[i], "decode_single", f"decode(np.uint8({i}))")
        else:
            o.check_eq(_plain(alph.decode(np.int64(i))), syms[i], "decode_single", f"decode(np.int64({i}))")
    # multiple forms
    if kind == "letter":
        sym_forms = _letter_forms(want)
    else:
        sym_forms = [("list", list(want)), ("tuple", tuple(want))]
    for name, obj in sym_forms:
        code = alph.encode_multiple(obj)
        if o.check(isinstance(code, np.ndarray) and code.dtype.kind in "iu", "encode_multiple", f"{name}: type {type(code)}"):
            o.check_array_eq(code, np.array(idx, dtype=np.int64), "encode_multiple", f"encode_multiple({name})")
    if kind != "letter":
        for dt in UINT_DTYPES + ["int64"]:
            if all(_fits(c, dt) for c in idx):
                code = alph.encode_multiple(list(want), np.dtype(dt))
                o.check_eq(str(code.dtype), dt, "encode_multiple", "dtype argument")
                o.check_array_eq(code, np.array(idx, dtype=dt), "encode_multiple", f"encode_multiple(dtype={dt})")
    for name, codes in _code_forms(idx):
        got = alph.decode_multiple(codes)
        o.check_eq([_plain(x) for x in got], want, "decode_multiple", f"decode_multiple({name})")
        back = alph.encode_multiple(got)
        o.check_array_eq(back, np.array(idx, dtype=np.int64), "encode_decode_identity", f"encode_multiple(decode_multiple({name}))")
    if kind == "letter":
        got = alph.decode_multiple(np.array(idx, dtype=np.uint8), as_bytes=True)
        o.check_eq([bytes(x) for x in got], [c.encode("ascii") for c in want], "decode_multiple", "as_bytes=True")
        # the single-symbol form takes the same keyword today (undocumented, may be dropped): where it
        # exists the symbol comes back as str or as bytes
        try:
            has_kw = "as_bytes" in inspect.signature(alph.decode).parameters
        except (TypeError, ValueError):
            has_kw = False
        o.label("decode_single_as_bytes_kw" if has_kw else "decode_single_without_as_bytes_kw")
        for c, sym in zip(idx, want) if has_kw else ():
            one = alph.decode(c, as_bytes=True)
            o.check(
                one == sym or (isinstance(one, (bytes, np.bytes_)) and bytes(one) == sym.encode("ascii")),
                "encode_decode_identity",
                lambda: f"decode({c}, as_bytes=True) gave {one!r:.80} for symbol {sym!r}",
            )
    return o


# --------------------------------------------------------------------------
# (b) rejection: all 256 byte values x letter alphabets
# --------------------------------------------------------------------------
def _enum_letter_alphabets(tier):
    out = list(_FIXED_LETTER)
    rng = np.random.default_rng(20260927)
    for _ in range(5 if tier == "quick" else 40):
        out.append("".join(rng.permutation(list(PRINTABLES))[: int(rng.integers(1, 95))].tolist()))
    return out


def cases_byte_rejection(tier):
    for s in _enum_letter_alphabets(tier):
        for b in range(256):
            yield {"alph": s, "byte": b}


def run_byte_rejection(case):
    from biotite.sequence import GeneralSequence, LetterAlphabet

    o = Outcome()
    s, b = case["alph"], case["byte"]
    alph = LetterAlphabet(s)
    ch, by = chr(b), bytes([b])
    pre, post = s[0], s[-1]
    inside = b < 128 and ch in s
    ascii_ = b < 128
    calls = [
        ("encode(bytes)", lambda: alph.encode(by), "single", True),
        ("encode_multiple(bytes)", lambda: alph.encode_multiple(pre.encode() + by + post.encode()), "multi", True),
        ("encode_multiple(bytes alone)", lambda: alph.encode_multiple(by), "alone", True),
        ("encode_multiple(list of bytes)", lambda: alph.encode_multiple([pre.encode(), by, post.encode()]), "multi", True),
        ("encode_multiple(ndarray S1)", lambda: alph.encode_multiple(np.array([pre.encode(), by, post.encode()], dtype="S1")), "multi", True),
        ("encode(str)", lambda: alph.encode(ch), "single", ascii_),
        ("encode_multiple(str)", lambda: alph.encode_multiple(pre + ch + post), "multi", ascii_),
        ("encode_multiple(list of str)", lambda: alph.encode_multiple([pre, ch, post]), "multi", ascii_),
        ("encode_multiple(ndarray U1)", lambda: alph.encode_multiple(np.array([pre, ch, post], dtype="U1")), "multi", ascii_),
        ("GeneralSequence(str)", lambda: GeneralSequence(alph, pre + ch + post).code, "multi", ascii_),
    ]
    if b == 0:
        # NumPy string arrays cannot hold a NUL character: the element *is* the empty string
        # (np.array(["\x00"], dtype="U1")[0] == ""), and lists of symbols are converted to such
        # arrays.  An empty element is not a symbol in any reading of the property: NUL is judged
        # in the str / bytes forms only.
        calls = [c for c in calls if "list of" not in c[0] and "ndarray" not in c[0]]
        o.label("nul_byte_only_in_str_and_bytes_forms")
    if inside:
        i = s.index(ch)
        o.label("inside")
        for what, fn, shape, _strict in calls:
            got = fn()
            wantv = {"single": i, "alone": [i], "multi": [0, i, len(s) - 1]}[shape]
            if shape == "single":
                o.check_eq(got, wantv, "encode_single", f"{what} byte {b}")
            else:
                o.check_array_eq(got, np.array(wantv), "encode_multiple", f"{what} byte {b}")
        o.check_eq(alph.decode(i), ch, "decode_single", f"decode({i})")
        return o
    o.label("outside_ascii" if ascii_ else "outside_non_ascii")
    near = any(0 <= b + d < 128 and chr(b + d) in s for d in (-1, 1)) or (ascii_ and ch.swapcase() in s)
    if near:
        o.label("one_step_outside")
    o.mark_nontrivial(near)
    for what, fn, _shape, strict in calls:
        if strict:
            _must_reject(o, fn, "symbol_outside_alphabet_raises_AlphabetError", f"{what} byte {b} alphabet {s!r}")
        else:
            _must_raise_anything(o, fn, "symbol_outside_alphabet_no_value", f"{what} chr({b}) alphabet {s!r}")
    return o


# --------------------------------------------------------------------------
# (b) rejection: random alphabets, outsider symbol anywhere in a sequence
# --------------------------------------------------------------------------
_EXTRA_CHARS = PRINTABLES + " \n\t\x00\x7f"


def st_symbol_rejection(tier):
    return st.fixed_dictionaries(
        {
            "target": st.sampled_from(["alphabet", "alphabet", "nuc", "prot"]),
            "alph": st_alphabet_spec(),
            "idx": st_idx(tier),
            "pos": st.integers(0, 10**6),
            "out_kind": st.sampled_from(["multi", "char", "char"]),
            "out_raw": st.lists(st.integers(0, 10**6), min_size=3, max_size=3),
            "out_sym": st_gsym(),
        }
    )


def _outsider_generic(sym, syms):
    while sym in syms:
        sym = (sym,)
    return sym


def run_symbol_rejection(case):
    from biotite.sequence import GeneralSequence, NucleotideSequence, ProteinSequence

    o = Outcome()
    target = case["target"]
    raw = case["out_raw"]
    if target in ("nuc", "prot"):
        letters = AMB if target == "nuc" else PROT
        cls = NucleotideSequence if target == "nuc" else ProteinSequence
        # constructors upper-case their input: the outsider must stay outside after upper()
        non = [c for c in PRINTABLES if c.upper() not in letters]
        out = non[raw[0] % len(non)]
        idx = [i % len(letters) for i in case["idx"]]
        body = [letters[i] for i in idx]
        pos = case["pos"] % (len(body) + 1)
        full = body[:pos] + [out] + body[pos:]
        o.label(target, "pos=0" if pos == 0 else ("pos=end" if pos == len(body) else "pos=mid"))
        o.mark_nontrivial(len(body) >= 4)
        cl = "symbol_outside_alphabet_raises_AlphabetError"
        _must_reject(o, lambda: cls("".join(full)), cl, f"{cls.__name__}({''.join(full)!r})")
        _must_reject(o, lambda: cls(list(full)), cl, f"{cls.__name__}(list {full!r})")
        if target == "nuc":
            _must_reject(o, lambda: cls("".join(full), ambiguous=True), cl, "ambiguous=True")
            # an ambiguous letter is outside the unambiguous alphabet
            amb_out = AMB[4 + raw[1] % 11]
            full2 = [UNAMB[i % 4] for i in idx]
            full2 = full2[:pos] + [amb_out] + full2[pos:]
            _must_reject(o, lambda: cls("".join(full2), ambiguous=False), cl, f"ambiguous=False {''.join(full2)!r}")
            o.check_eq(str(cls("".join(full2))), "".join(full2), "construction", "automatic choice of the ambiguous alphabet")
        if body:
            seq = cls(list(body))
            p = pos % len(body)
            _must_reject(o, lambda: seq.__setitem__(p, out), cl, f"seq[{p}] = {out!r}")
            o.check_eq(str(seq), "".join(body), "rejected_assignment_leaves_sequence", "after rejected assignment")
        return o

    alph, syms = _mk_alphabet(case["alph"])
    kind = case["alph"]["kind"]
    n = len(syms)
    idx = [i % n for i in case["idx"]]
    body = [syms[i] for i in idx]
    pos = case["pos"] % (len(body) + 1)
    o.label(kind, _size_label(n), "pos=0" if pos == 0 else ("pos=end" if pos == len(body) else "pos=mid"))
    o.mark_nontrivial(len(body) >= 4 and n >= 3)
    cl = "symbol_outside_alphabet_raises_AlphabetError"
    if kind == "letter":
        ok = case["out_kind"]
        if ok == "multi":
            # several letters, made of letters of the alphabet itself
            m = 2 + raw[0] % 2
            out = "".join(syms[r % n] for r in (raw + raw)[:m])
            o.label("multi_letter_symbol")
            forms = [
                ("list", lambda full: list(full)),
                ("tuple", lambda full: tuple(full)),
                ("ndarray", lambda full: np.array(full)),
                ("list_bytes", lambda full: [c.encode("ascii") for c in full]),
            ]
        else:
            non = [c for c in _EXTRA_CHARS if c not in syms]
            out = non[raw[0] % len(non)]
            o.label("single_char_outsider")
            forms = [
                ("str", lambda full: "".join(full)),
                ("bytes", lambda full: "".join(full).encode("ascii")),
            ]
            if out != "\x00":
                # (a NUL element of a NumPy string array is the empty string: not a symbol)
                forms += [
                    ("list", lambda full: list(full)),
                    ("ndarray_U", lambda full: np.array(full, dtype="U1")),
                    ("ndarray_S", lambda full: np.array([c.encode("ascii") for c in full], dtype="S1")),
                ]
            else:
                o.label("nul_outsider_only_in_str_and_bytes_forms")
        full = body[:pos] + [out] + body[pos:]
        _must_reject(o, lambda: alph.encode(out), cl, f"encode({out!r})")
        for name, conv in forms:
            obj = conv(full)
            _must_reject(o, lambda: alph.encode_multiple(obj), cl, f"encode_multiple({name} {full!r}) alphabet {''.join(syms)!r}")
            _must_reject(o, lambda: GeneralSequence(alph, obj), cl, f"GeneralSequence({name})")
    else:
        out = _outsider_generic(_sym(case["out_sym"]), syms)
        full = body[:pos] + [out] + body[pos:]
        _must_reject(o, lambda: alph.encode(out), cl, f"encode({out!r})")
        _must_reject(o, lambda: alph.encode_multiple(list(full)), cl, f"encode_multiple(list) with {out!r} at {pos}")
        _must_reject(o, lambda: alph.encode_multiple(tuple(full)), cl, f"encode_multiple(tuple) with {out!r} at {pos}")
        _must_reject(o, lambda: GeneralSequence(alph, list(full)), cl, "GeneralSequence(list)")
    if body:
        seq = GeneralSequence(alph, list(body))
        p = pos % len(body)
        _must_reject(o, lambda: seq.__setitem__(p, out), cl, f"seq[{p}] = {out!r}")
        if not (kind == "letter" and out == "\x00"):  # (a list holding NUL: see above)
            _must_reject(o, lambda: seq.__setitem__(slice(p, p + 1), [out]), cl, f"seq[{p}:{p + 1}] = [{out!r}]")
        o.check_eq([_plain(x) for x in seq.symbols], body, "rejected_assignment_leaves_sequence", "after rejected assignment")
    return o


# --------------------------------------------------------------------------
# (b) rejection of codes
# --------------------------------------------------------------------------
def _check_code(o, alph, syms, code, kind, context):
    """All ways to decode one code value; context = valid codes around it."""
    from biotite.sequence import GeneralSequence, Sequence

    n = len(syms)
    valid = 0 <= code < n
    cl = "code_outside_range_raises_AlphabetError"
    pre, post = context
    arr = list(pre) + [code] + list(post)
    want = [syms[c] for c in arr] if valid else None
    calls = [("decode(int)", lambda: alph.decode(code), False)]
    for dt in INT_DTYPES:
        if _fits(code, dt):
            calls.append((f"decode(np.{dt})", (lambda dt=dt: alph.decode(np.dtype(dt).type(code))), False))
        if all(_fits(c, dt) for c in arr):
            a = np.array(arr, dtype=dt)
            calls.append((f"decode_multiple({dt})", (lambda a=a: alph.decode_multiple(a)), True))
    if abs(code) < 2**63:
        calls.append(("decode_multiple(list)", lambda: alph.decode_multiple(list(arr)), True))
    seq_dt = Sequence.dtype(n)
    if _fits(code, seq_dt):
        def via_seq(attr):
            s = GeneralSequence(alph)
            s.code = np.array(arr, dtype=seq_dt)
            if attr == "symbols":
                return s.symbols
            if attr == "str":
                return str(s)
            if attr == "item":
                return [s[len(pre)]]
            return s.is_valid()

        calls.append(("Sequence.symbols", lambda: via_seq("symbols"), True))
        calls.append(("Sequence[i]", lambda: via_seq("item"), "item"))
        if kind == "letter":
            calls.append(("str(Sequence)", lambda: via_seq("str"), "str"))
        o.check_eq(bool(via_seq("valid")), valid, "is_valid", f"is_valid() with code {code} in alphabet of {n}")
    for what, fn, multi in calls:
        if valid:
            got = fn()
            if multi == "str":
                o.check_eq(got, "".join(want), "decode_multiple", f"{what} code {code}")
            elif multi == "item":
                o.check_eq(_plain(got[0]), syms[code], "decode_single", f"{what} code {code}")
            elif multi:
                o.check_eq([_plain(x) for x in got], want, "decode_multiple", f"{what} code {code}")
            else:
                o.check_eq(_plain(got), syms[code], "decode_single", f"{what} code {code}")
        else:
            _must_reject(o, fn, cl, f"{what} with code {code}, alphabet size {n}")


_ENUM_CODE_ALPHABETS = (
    [{"kind": "letter", "symbols": s} for s in ("A", "AC", UNAMB, AMB, PROT, PRINTABLES)]
    + [{"kind": "range", "n": m, "offset": 0} for m in (1, 3, 255, 256, 257, 300)]
)


def _boundary_codes(n):
    vals = {-(2**63), -(2**31) - 1, -65537, -65536, -257, -256, -255, -129, -128, -127, -2, -1, 0, 1}
    vals |= {n - 2, n - 1, n, n + 1, 127, 128, 254, 255, 256, 257, 256 + n - 1, 256 + n, 511, 512, 512 + n - 1}
    vals |= {65535, 65536, 65536 + n - 1, 65536 + n, 2**31 - 1, 2**31, 2**32 - 1, 2**32, 2**32 + n - 1, 2**63 - 1, 2**63, 2**64 - 1}
    return sorted(vals)


def cases_code_rejection(tier):
    for spec in _ENUM_CODE_ALPHABETS:
        n = len(spec["symbols"]) if spec["kind"] == "letter" else spec["n"]
        for c in _boundary_codes(n):
            for ctx in (0, 3):
                yield {"alph": spec, "code": str(c), "ctx": ctx}


def run_code_rejection(case):
    o = Outcome()
    alph, syms = _mk_alphabet(case["alph"])
    n = len(syms)
    code = int(case["code"])  # stored as text: JSON readers may lose 64 bit integers
    k = case["ctx"]
    ctx = ([0] * k, [n - 1] * k)
    o.label(case["alph"]["kind"], _size_label(n), "valid" if 0 <= code < n else "invalid")
    o.mark_nontrivial(code in (-1, n) or (code >= 256 and 0 <= code % 256 < n))
    _check_code(o, alph, syms, code, case["alph"]["kind"], ctx)
    return o


def st_invalid_codes(tier):
    bad = st.one_of(
        st.tuples(st.just("len"), st.integers(0, 3)),
        st.tuples(st.just("len"), st.integers(0, 70000)),
        st.tuples(st.just("neg"), st.integers(1, 3)),
        st.tuples(st.just("neg"), st.integers(1, 70000)),
        st.tuples(st.just("wrap"), st.sampled_from([256, 512, 65536, 2**32]), st.integers(0, 10**6)),
        st.tuples(st.just("negwrap"), st.sampled_from([256, 512, 65536]), st.integers(0, 10**6)),
    )
    return st.fixed_dictionaries(
        {"alph": st_alphabet_spec(), "idx": st_idx(tier), "pos": st.integers(0, 10**6), "bad": bad}
    )


def run_invalid_codes(case):
    o = Outcome()
    alph, syms = _mk_alphabet(case["alph"])
    n = len(syms)
    idx = [i % n for i in case["idx"]]
    pos = case["pos"] % (len(idx) + 1)
    bad = case["bad"]
    if bad[0] == "len":
        code = n + bad[1]
    elif bad[0] == "neg":
        code = -bad[1]
    elif bad[0] == "wrap":
        code = bad[1] + bad[2] % n  # congruent to a valid code modulo 2**8 / 2**16 / 2**32
    else:
        code = -bad[1] + bad[2] % n
    if 0 <= code < n:  # "negwrap" on an alphabet larger than the modulus
        code = n
    o.label(case["alph"]["kind"], _size_label(n), bad[0], "pos=0" if pos == 0 else ("pos=end" if pos == len(idx) else "pos=mid"))
    o.mark_nontrivial(len(idx) >= 4 and n >= 3 and (code in (-1, n) or bad[0] in ("wrap", "negwrap")))
    _check_code(o, alph, syms, code, case["alph"]["kind"], (idx[:pos], idx[pos:]))
    return o


# --------------------------------------------------------------------------
# (c) AlphabetMapper
# --------------------------------------------------------------------------
def st_mapper(tier):
    src = st.one_of(st_letter_spec(max_size=80), st_generic_spec(), st_range_spec(1, 400))
    return st.fixed_dictionaries(
        {
            "src": src,
            "mode": st.sampled_from(["permuted", "permuted", "extended", "identical", "missing"]),
            "n_extra": st.integers(0, 6),
            "seed": st.integers(0, 2**31),
            "tgt_generic": st.booleans(),
            "codes": st_idx(tier),
            "drop": st.integers(0, 10**6),
        }
    )


def _extra_symbols(spec, syms, k):
    if spec["kind"] == "letter":
        return [c for c in PRINTABLES if c not in syms][:k]
    out, j = [], 0
    while len(out) < k:
        if ("verif_extra", j) not in syms:
            out.append(("verif_extra", j))
        j += 1
    return out


def run_mapper(case):
    from biotite.sequence import Alphabet, AlphabetMapper, LetterAlphabet

    o = Outcome()
    src, syms = _mk_alphabet(case["src"])
    kind = case["src"]["kind"]
    n = len(syms)
    mode = case["mode"]
    extra = _extra_symbols(case["src"], syms, case["n_extra"])
    rng = np.random.default_rng(case["seed"])
    if mode == "identical":
        tsyms = list(syms)
    elif mode == "extended":
        tsyms = list(syms) + extra
    else:
        tsyms = list(syms) + extra
        tsyms = [tsyms[i] for i in rng.permutation(len(tsyms))]
    dropped = None
    if mode == "missing":
        dropped = syms[case["drop"] % n]
        tsyms = [s for s in tsyms if s != dropped]
        if not tsyms:
            tsyms = _extra_symbols(case["src"], syms, 1) or [("verif_extra", 0)]
    if kind == "letter" and not case["tgt_generic"]:
        tgt = LetterAlphabet(tsyms)
    else:
        tgt = Alphabet(tsyms)
    o.label(kind, mode, _size_label(n), "tgt>256" if len(tsyms) > 256 else "tgt<=256")
    if mode == "missing":
        # documented as a precondition only ("the target alphabet must contain at least all symbols
        # of the source alphabet"), no exception type is named: an error of any type, never a mapper
        cl = "mapper_target_lacking_symbol_no_value"
        try:
            lazy = AlphabetMapper(src, tgt)
        except Exception as e:  # noqa: BLE001 - the type is recorded, not judged
            o.label(f"missing_symbol_ctor_raised={type(e).__name__}")
            return o
        # a mapper that validates on use: the code of the missing symbol must still not yield a value
        o.label("missing_symbol_mapper_built")
        c = syms.index(dropped)
        _must_raise_anything(o, lambda: lazy[c], cl, f"mapper[{c}] (symbol {dropped!r} is missing in the target)")
        _must_raise_anything(o, lambda: lazy[np.array([c])], cl, f"mapper[[{c}]] (symbol {dropped!r} is missing in the target)")
        return o
    mapper = AlphabetMapper(src, tgt)
    codes = [c % n for c in case["codes"]]
    o.mark_nontrivial(len(codes) >= 4 and n >= 3 and mode == "permuted")
    cl = "mapper_preserves_symbols"
    for c in sorted(set(codes) | {0, n - 1}):
        for what, cc in (("int", c), ("np.int64", np.int64(c)), ("np.uint8", np.uint8(c) if c < 256 else c)):
            o.check_eq(_plain(tgt.decode(mapper[cc])), syms[c], cl, f"scalar {what} code {c}")
    want = [syms[c] for c in codes]
    for name, arr in _code_forms(codes):
        m = mapper[arr]
        if not o.check(isinstance(m, np.ndarray) and m.shape == (len(codes),), cl, f"mapper[{name}] returned {type(m).__name__} {getattr(m, 'shape', None)}"):
            continue
        o.check_eq([_plain(x) for x in tgt.decode_multiple(m)], want, cl, f"mapper[{name} array]")
    # code arrays that are views with a stride (every other element, reversed)
    if codes:
        seq_dt = np.uint8 if n <= 256 else np.uint16
        for dt in (np.int64, seq_dt):
            m = mapper[np.repeat(np.array(codes, dtype=dt), 2)[::2]]
            o.check_eq([_plain(x) for x in tgt.decode_multiple(m)], want, cl, f"mapper[strided {np.dtype(dt).name} view]")
            m = mapper[np.array(codes[::-1], dtype=dt)[::-1]]
            o.check_eq([_plain(x) for x in tgt.decode_multiple(m)], want, cl, f"mapper[reversed {np.dtype(dt).name} view]")
        o.label("strided_code_views")
    return o


# --------------------------------------------------------------------------
# (d) sequence objects vs a Python list of symbols (op-list histories)
# --------------------------------------------------------------------------
_VALUE_FORMS = ["list", "tuple", "str", "code64", "code_small", "seq", "bcast_str", "bcast_list"]


def st_seq_ops(tier):
    big = tier != "quick"
    ints = st.integers(-200, 200)
    raw = st.integers(0, 10**6)
    opt = st.one_of(st.none(), st.integers(-70, 70))
    step = st.sampled_from([None, None, 1, 2, 3, -1, -2])
    symidxs = st.lists(raw, min_size=1, max_size=6)
    form = st.sampled_from(_VALUE_FORMS)
    bits = st.lists(st.booleans(), min_size=1, max_size=8)
    op = st.one_of(
        st.tuples(st.just("eq_probe"), ints, raw),
        st.tuples(st.just("add"), st.lists(raw, min_size=1, max_size=8), st.sampled_from(["right", "left"]), st.just(True)),
        st.tuples(st.just("get_int"), ints),
        st.tuples(st.just("get_oob"), st.integers(0, 5), st.booleans()),
        st.tuples(st.just("get_slice"), opt, opt, step),
        st.tuples(st.just("get_mask"), bits),
        st.tuples(st.just("get_idx"), st.lists(ints, max_size=8), st.sampled_from(["list", "ndarray"])),
        st.tuples(st.just("set_int"), ints, raw),
        st.tuples(st.just("set_slice"), opt, opt, step, form, symidxs),
        st.tuples(st.just("set_mask"), bits, form, symidxs),
        st.tuples(st.just("set_idx"), st.lists(ints, max_size=8), form, symidxs),
        st.tuples(st.just("add"), st.lists(raw, max_size=8), st.sampled_from(["right", "left"]), st.booleans()),
        st.tuples(st.just("add_incompatible"), st.sampled_from(["right", "left"])),
        st.tuples(st.just("reverse"), st.booleans()),
        st.tuples(st.just("reverse_probe"), st.booleans(), ints, raw),
        st.tuples(st.just("copy_probe"), ints, raw),
        st.tuples(st.just("set_symbols"), st.lists(raw, max_size=12), st.sampled_from(["list", "tuple", "str", "ndarray"])),
        st.tuples(st.just("set_code"), st.lists(raw, max_size=12), st.sampled_from(INT_DTYPES)),
        st.tuples(st.just("invalid_probe"), ints, st.integers(0, 3)),
        st.tuples(st.just("iter")),
        st.tuples(st.just("restore"), st.sampled_from(["pickle", "deepcopy", "copy.copy"])),
    )
    kind = st.sampled_from(["gen_generic", "nuc", "prot", "gen_letter", "gen_big", "nuc"])
    return st.fixed_dictionaries(
        {
            "kind": kind,
            "amb": st.sampled_from([None, True, False]),
            "pool": st.sampled_from(["unamb", "amb"]),
            "letter": st_letter_spec(),
            "generic": st_generic_spec(),
            "big": st_range_spec(250, 300),
            "init": st_raws(0, 40 if not big else 120),
            "init_form": st.sampled_from(["str", "list", "tuple", "ndarray", "lower_str", "lower_list", "three", "bytes"]),
            "ops": st.lists(op, min_size=1, max_size=12 if not big else 30),
        }
    )


class _SeqEnv:
    """Builds sequences of one flavour; `A` is the list of symbols of the current alphabet."""

    def __init__(self, case):
        self.kind = case["kind"]
        self.letter = self.kind in ("nuc", "prot", "gen_letter")
        self.alph_obj = None
        if self.kind == "nuc":
            self.pool = list(AMB if case["pool"] == "amb" else UNAMB)
        elif self.kind == "prot":
            self.pool = list(PROT)
        elif self.kind == "gen_letter":
            self.alph_obj, self.pool = _mk_alphabet(case["letter"])
        elif self.kind == "gen_big":
            self.alph_obj, self.pool = _mk_alphabet(case["big"])
            self.kind = "gen_generic"
        else:
            self.alph_obj, self.pool = _mk_alphabet(case["generic"])
        self.A = list(self.pool)

    def alphabet_for(self, A):
        from biotite.sequence import Alphabet, LetterAlphabet

        if self.kind == "gen_letter":
            return LetterAlphabet(A)
        return Alphabet(A)

    def make(self, symbols, A=None):
        from biotite.sequence import GeneralSequence, NucleotideSequence, ProteinSequence

        A = self.A if A is None else A
        if self.kind == "nuc":
            return NucleotideSequence(list(symbols), ambiguous=(len(A) == len(AMB)))
        if self.kind == "prot":
            return ProteinSequence(list(symbols))
        obj = self.alph_obj if A == self.A else self.alphabet_for(A)
        return GeneralSequence(obj, list(symbols))

    def syms_from(self, raws, A=None):
        A = self.A if A is None else A
        return [A[r % len(A)] for r in raws]

    def code_dtype(self, A=None):
        A = self.A if A is None else A
        return np.uint8 if len(A) <= 256 else np.uint16

    def value(self, form, symbols):
        """The right-hand side of an assignment in the requested form."""
        if not self.letter and form in ("str", "bcast_str"):
            form = {"str": "list", "bcast_str": "bcast_list"}[form]
        if form == "list":
            return list(symbols)
        if form == "tuple":
            return tuple(symbols)
        if form == "str":
            return "".join(symbols)
        if form == "code64":
            return np.array([self.A.index(s) for s in symbols], dtype=np.int64)
        if form == "code_small":
            return np.array([self.A.index(s) for s in symbols], dtype=self.code_dtype())
        if form == "seq":
            return self.make(symbols)
        if form == "bcast_str":
            return symbols[0]
        if form == "bcast_list":
            return [symbols[0]]
        raise ValueError(form)


def _check_state(o, cur, model, env, step):
    A = env.A
    if not o.check_eq(len(cur), len(model), "length", f"after {step}"):
        return False
    ok = True
    if env.letter:
        ok &= o.check_eq(str(cur), "".join(model), "str_equals_symbol_string", f"after {step}")
    ok &= o.check_eq([_plain(x) for x in cur.symbols], list(model), "symbols_equal_model", f"after {step}")
    codes = [A.index(s) for s in model]
    ok &= o.check_eq(cur.code.tolist(), codes, "code_equals_alphabet_index", f"after {step}")
    ok &= o.check_eq(cur.code.dtype, np.dtype(env.code_dtype()), "code_dtype_by_alphabet_size", f"after {step}")
    ok &= o.check(bool(cur.is_valid()), "is_valid", f"is_valid() false after {step}")
    ok &= o.check_eq(list(cur.get_alphabet().get_symbols()), list(A), "alphabet_of_result", f"after {step}")
    return ok


def _resolve_index(i, n):
    """raw int -> valid (possibly negative) index"""
    return i % n if i >= 0 else -((-i - 1) % n) - 1


def run_seq_ops(case):
    from biotite.sequence import GeneralSequence, NucleotideSequence, ProteinSequence

    o = Outcome()
    env = _SeqEnv(case)
    kind = env.kind
    model = env.syms_from(case["init"]) if case["init"] else []
    form = case["init_form"]
    o.label(kind, _size_label(len(env.A)), "init_empty" if not model else ("init>=4" if len(model) >= 4 else "init<4"))
    if case["kind"] == "gen_big":
        o.label("gen_big")

    # ---- construction
    if kind == "nuc":
        amb = case["amb"]
        has_amb = any(s not in UNAMB for s in model)
        if amb is False and has_amb:
            o.label("unamb_requested_for_ambiguous_symbols")
            _must_reject(o, lambda: NucleotideSequence("".join(model), ambiguous=False), "symbol_outside_alphabet_raises_AlphabetError", "ambiguous=False")
            return o
        env.A = list(AMB) if (amb is True or (amb is None and has_amb)) else list(UNAMB)
        arg = {
            "str": "".join(model),
            "lower_str": "".join(model).lower(),
            "lower_list": [s.lower() for s in model],
            "tuple": tuple(model),
            "ndarray": np.array(model, dtype="U1"),
        }.get(form, list(model))
        cur = NucleotideSequence(arg, ambiguous=amb) if amb is not None else NucleotideSequence(arg)
        o.label(f"amb={amb}", "alphabet=" + ("amb" if len(env.A) == 15 else "unamb"))
    elif kind == "prot":
        form = {"bytes": "three", "tuple": "three"}.get(form, form)
        if form == "three":
            rng_case = [THREE.get(s, s) for s in model]  # '*' stays a single letter
            arg = [t.lower() if i % 3 == 1 else (t.capitalize() if i % 3 == 2 else t) for i, t in enumerate(rng_case)]
            o.label("three_letter")
        else:
            arg = {
                "str": "".join(model),
                "lower_str": "".join(model).lower(),
                "lower_list": [s.lower() for s in model],
                "tuple": tuple(model),
                "ndarray": np.array(model, dtype="U1"),
            }.get(form, list(model))
        cur = ProteinSequence(arg)
    elif kind == "gen_letter":
        arg = {
            "str": "".join(model),
            "bytes": "".join(model).encode("ascii"),
            "tuple": tuple(model),
            "ndarray": np.array(model, dtype="U1"),
        }.get(form, list(model))
        cur = GeneralSequence(env.alph_obj, arg)
    else:
        arg = tuple(model) if form == "tuple" else list(model)
        cur = GeneralSequence(env.alph_obj, arg)
    o.label("form=" + form)
    if not _check_state(o, cur, model, env, f"construction from {form}"):
        return o
    if not model:
        empty = env.make([]) if kind != "nuc" else NucleotideSequence(ambiguous=(len(env.A) == 15))
        o.check(empty == cur, "equality", "empty sequences are not equal")

    n_effective = 0
    for op in case["ops"]:
        name = op[0]
        n = len(model)
        A = env.A
        cls = type(cur)
        if name in ("get_int", "set_int", "get_oob", "reverse_probe", "copy_probe", "invalid_probe") and n == 0:
            if name == "get_oob":
                o.expect_raises(IndexError, lambda: cur[0], "index_out_of_range", "[0] on an empty sequence")
            continue
        n_effective += 1
        o.label("op=" + name)
        if name == "get_int":
            i = _resolve_index(op[1], n)
            for ii in (i, np.int64(i)):
                o.check_eq(_plain(cur[ii]), model[i], "int_index", f"seq[{i}]")
        elif name == "get_oob":
            i = n + op[1] if op[2] else -n - 1 - op[1]
            o.expect_raises(IndexError, lambda: cur[i], "index_out_of_range", f"seq[{i}] with length {n}")
        elif name == "get_slice":
            sl = slice(op[1], op[2], op[3])
            sub = cur[sl]
            want = model[sl]
            if o.check(type(sub) is cls, "slice_index", f"type of seq[{sl}] is {type(sub).__name__}"):
                o.check_eq([_plain(x) for x in sub.symbols], want, "slice_index", f"seq[{op[1]}:{op[2]}:{op[3]}]")
                if env.letter:
                    o.check_eq(str(sub), "".join(want), "slice_index", f"str(seq[{op[1]}:{op[2]}:{op[3]}])")
                o.check(sub.get_alphabet() == cur.get_alphabet(), "slice_index", "alphabet of the subsequence")
        elif name == "get_mask":
            mask = [op[1][i % len(op[1])] for i in range(n)]
            sub = cur[np.array(mask, dtype=bool)]
            o.check_eq([_plain(x) for x in sub.symbols], [s for s, m in zip(model, mask) if m], "mask_index", f"mask {mask}")
        elif name == "get_idx":
            if n == 0:
                idx = []
            else:
                idx = [_resolve_index(i, n) for i in op[1]]
            arg = np.array(idx, dtype=np.int64) if op[2] == "ndarray" else list(idx)
            sub = cur[arg]
            if o.check(type(sub) is cls, "index_array", f"type of seq[{idx}] is {type(sub).__name__}"):
                o.check_eq([_plain(x) for x in sub.symbols], [model[i] for i in idx], "index_array", f"seq[{idx}]")
        elif name == "set_int":
            i = _resolve_index(op[1], n)
            s = A[op[2] % len(A)]
            cur[i] = s
            model[i] = s
        elif name in ("set_slice", "set_mask", "set_idx"):
            if name == "set_slice":
                sl = slice(op[1], op[2], op[3])
                positions = list(range(*sl.indices(n)))
                index = sl
                vform, raws = op[4], op[5]
            elif name == "set_mask":
                mask = [op[1][i % len(op[1])] for i in range(n)]
                positions = [i for i, m in enumerate(mask) if m]
                index = np.array(mask, dtype=bool)
                vform, raws = op[2], op[3]
            else:
                seen, idx = set(), []
                for i in op[1] if n else []:
                    r = _resolve_index(i, n)
                    if r % n not in seen:  # duplicate targets: numpy leaves the winner unspecified
                        seen.add(r % n)
                        idx.append(r)
                positions = [r % n for r in idx]
                vform, raws = op[2], op[3]
                index = list(idx) if len(raws) % 2 else np.array(idx, dtype=np.int64)
            m = len(positions)
            if vform.startswith("bcast"):
                vals = env.syms_from(raws[:1]) * m
                value = env.value(vform, env.syms_from(raws[:1]))
            else:
                vals = [A[raws[j % len(raws)] % len(A)] for j in range(m)]
                value = env.value(vform, vals)
            o.label("value=" + vform)
            cur[index] = value
            for p, v in zip(positions, vals):
                model[p] = v
        elif name == "add":
            side, ext = op[2], op[3]
            A2 = A
            if ext:
                if kind == "nuc":
                    A2 = list(AMB)
                elif kind != "prot":
                    n_extra = 2
                    wide = kind != "gen_letter" and len(A) <= 256 and len(op[1]) >= 1 and sum(op[1]) % 3 != 1
                    if wide:
                        # the extended alphabet needs a wider code dtype than the current one
                        n_extra = 300 - len(A)
                    extra = _extra_symbols({"kind": "letter" if kind == "gen_letter" else "generic"}, A, n_extra)
                    if extra:
                        A2 = A + extra
                        if wide:
                            o.label("add_extending_beyond_code_width")
            other_syms = env.syms_from(op[1], A2) if op[1] else []
            if ext and len(A2) > 256 >= len(A) and other_syms:
                # make sure symbols with codes >= 256 take part
                other_syms = [A2[-1 - (r % 40)] if j % 2 == 0 else sym for j, (r, sym) in enumerate(zip(op[1], other_syms))]
            other = env.make(other_syms, A2)
            if A2 != A:
                o.label("add_extending_alphabet")
            if side == "right":
                res = cur + other
                model = model + other_syms
            else:
                res = other + cur
                model = other_syms + model
            o.check(type(res) is cls, "concatenation", f"type of the sum is {type(res).__name__}")
            if A2 != A:
                env.A = A2
                if kind not in ("nuc", "prot"):
                    env.alph_obj = res.get_alphabet()
            cur = res
        elif name == "add_incompatible":
            if kind == "nuc":
                other, osyms = ProteinSequence("AC"), ["A", "C"]
            elif kind == "prot":
                other, osyms = NucleotideSequence("AC"), ["A", "C"]
            else:
                B = list(reversed(A))
                if B == A:
                    B = _extra_symbols({"kind": "letter" if kind == "gen_letter" else "generic"}, A, 1)
                other, osyms = GeneralSequence(env.alphabet_for(B), B[:1]), B[:1]
            # Neither alphabet extends the other.  Nothing is documented for this case; the
            # property only says that a sum agrees with the concatenated symbols.  So: either an
            # error (any type), or a sequence that holds exactly the symbols of both operands.
            try:
                res = (cur + other) if op[1] == "right" else (other + cur)
            except Exception as e:  # noqa: BLE001 - the type is recorded, not judged
                o.label(f"add_incompatible_raised={type(e).__name__}")
            else:
                o.label("add_incompatible_returned_sequence")
                wsyms = (model + osyms) if op[1] == "right" else (osyms + model)
                try:
                    gsyms = [_plain(x) for x in res.symbols]
                except Exception as e:  # noqa: BLE001
                    gsyms = f"{type(e).__name__}: {e}"
                o.check_eq(gsyms, wsyms, "concatenation", "symbols of a sum of sequences whose alphabets do not extend each other")
        elif name == "restore":
            # the sequence continues its life as an object restored by pickling / deep copying
            # (equal, but not identical, alphabet objects): all later operations must behave alike
            import copy as _copy
            import pickle as _pickle

            if op[1] == "pickle":
                cur = _pickle.loads(_pickle.dumps(cur))
            elif op[1] == "deepcopy":
                cur = _copy.deepcopy(cur)
            else:
                cur = _copy.copy(cur)
            o.label("restored_by_" + op[1])
            o.check(type(cur) is cls, "copying", f"type after {op[1]} is {type(cur).__name__}")
        elif name == "reverse":
            cur = cur.reverse(copy=op[1])
            model = model[::-1]
            o.check(type(cur) is cls, "reversal", f"type of reverse() is {type(cur).__name__}")
        elif name == "reverse_probe":
            copy, i = op[1], _resolve_index(op[2], n) % n
            s = A[op[3] % len(A)]
            r = cur.reverse(copy=copy)
            o.check_eq([_plain(x) for x in r.symbols], model[::-1], "reversal", "reverse()")
            r[i] = s
            if not copy:
                # documented: the returned sequence is a view, changes show in the original
                model[n - 1 - i] = s
                o.label("reverse_view")
        elif name == "copy_probe":
            i = _resolve_index(op[1], n) % n
            c = cur.copy()
            o.check(type(c) is cls and c == cur and cur == c, "copy_equal", "copy() != original")
            s = A[op[2] % len(A)]
            if s == model[i] and len(A) > 1:
                s = A[(A.index(s) + 1) % len(A)]
            c[i] = s
            if s != model[i]:
                o.check(not (c == cur), "equality", "sequences differing in one symbol compare equal")
            # cur itself is compared with the model below: the copy must be independent
        elif name == "eq_probe":
            fresh = env.make(model)
            o.check(fresh == cur and cur == fresh, "equality", f"sequence rebuilt from {model!r} != current")
            o.check(not (cur != fresh), "equality", "!= is not the negation of ==")
            if n:
                i = _resolve_index(op[1], n) % n
                if len(A) > 1:
                    alt = list(model)
                    alt[i] = A[(A.index(alt[i]) + 1 + op[2] % (len(A) - 1)) % len(A)]
                    o.check(not (env.make(alt) == cur), "equality", f"{alt!r} == {model!r}")
                o.check(not (env.make(model[:-1]) == cur), "equality", "prefix compares equal")
            # documented: comparison with a string or list of symbols is always false
            if env.letter:
                o.check(not (cur == "".join(model)), "equality", "sequence == str")
            o.check(not (cur == list(model)), "equality", "sequence == list")
            if kind in ("nuc", "prot"):
                g = GeneralSequence(cur.get_alphabet(), list(model))
                o.check(not (cur == g) and not (g == cur), "equality", "instances of different classes compare equal")
            if kind == "nuc" and all(s in UNAMB for s in model):
                # documented: equal sequences have the same alphabet
                twin = NucleotideSequence(list(model), ambiguous=(len(A) != len(AMB)))
                o.check(not (cur == twin) and not (twin == cur), "equality", "same symbols over different alphabets compare equal")
        elif name == "set_symbols":
            new = env.syms_from(op[1]) if op[1] else []
            f = op[2]
            if f == "str" and env.letter:
                cur.symbols = "".join(new)
            elif f == "ndarray" and env.letter:
                cur.symbols = np.array(new, dtype="U1")
            elif f == "tuple":
                cur.symbols = tuple(new)
            else:
                cur.symbols = list(new)
            model = new
        elif name == "set_code":
            new = env.syms_from(op[1]) if op[1] else []
            codes = [A.index(s) for s in new]
            dt = op[2] if all(_fits(c, op[2]) for c in codes) else "int64"
            cur.code = np.array(codes, dtype=dt)
            model = new
        elif name == "invalid_probe":
            i = _resolve_index(op[1], n) % n
            bad = len(A) + op[2]
            if _fits(bad, env.code_dtype()):
                c = cur.copy()
                code = c.code.copy()
                code[i] = bad
                c.code = code
                o.check(not c.is_valid(), "is_valid", f"is_valid() true with code {bad} in alphabet of {len(A)}")
                cl = "code_outside_range_raises_AlphabetError"
                _must_reject(o, lambda: c.symbols, cl, f"symbols with code {bad}")
                _must_reject(o, lambda: c[i], cl, f"seq[{i}] with code {bad}")
                if env.letter:
                    _must_reject(o, lambda: str(c), cl, f"str() with code {bad}")
        elif name == "iter":
            o.check_eq([_plain(x) for x in cur], list(model), "iteration", "list(seq)")
        if not _check_state(o, cur, model, env, f"{name} {op[1:]!r}"):
            return o
    o.mark_nontrivial(len(case["init"]) >= 4 and len(env.pool) >= 3 and n_effective >= 2)
    return o


# --------------------------------------------------------------------------
# (e) complement
# --------------------------------------------------------------------------
def st_complement(tier):
    n = 60 if tier == "quick" else 300
    return st.fixed_dictionaries(
        {
            "seq": st.one_of(st.text(UNAMB, max_size=n), st.text(AMB, max_size=n), st.text(AMB[4:], min_size=1, max_size=20)),
            "amb": st.sampled_from([None, True, False]),
            "lower": st.booleans(),
        }
    )


def run_complement(case):
    from biotite.sequence import NucleotideSequence

    o = Outcome()
    s = case["seq"]
    amb = case["amb"]
    has_amb = any(c not in UNAMB for c in s)
    if amb is False and has_amb:
        amb = None
    arg = s.lower() if case["lower"] else s
    seq = NucleotideSequence(arg) if amb is None else NucleotideSequence(arg, ambiguous=amb)
    is_amb = bool(amb) or has_amb
    o.label("amb_alphabet" if is_amb else "unamb_alphabet", "has_ambiguous_symbols" if has_amb else "only_ACGT", "empty" if not s else "nonempty")
    o.mark_nontrivial(len(s) >= 4)
    o.check_eq(str(seq), s, "construction", "str(NucleotideSequence)")
    want = "".join(COMPL[c] for c in s)
    comp = seq.complement()
    o.check(type(comp) is NucleotideSequence, "complement_iupac_pairing", f"type {type(comp).__name__}")
    o.check_eq(str(comp), want, "complement_iupac_pairing", f"complement of {s!r}")
    calph = list(comp.get_alphabet().get_symbols())
    # An ambiguous-alphabet sequence that holds only A, C, G, T may legitimately come back over the
    # unambiguous alphabet (the property fixes the symbols, not the alphabet object): the alphabet
    # and the object equality (which includes the alphabet) are demanded only where the symbols
    # leave no choice.
    forced = has_amb or not is_amb
    if forced:
        o.check_eq(calph, list(AMB if is_amb else UNAMB), "complement_keeps_alphabet", "alphabet of the complement")
    else:
        o.check(calph in (list(AMB), list(UNAMB)), "complement_keeps_alphabet", f"alphabet of the complement is {calph!r}")
        o.label("complement_alphabet=" + ("amb" if calph == list(AMB) else "unamb"))
    o.check_eq(str(seq), s, "complement_does_not_mutate", "original after complement()")
    back = comp.complement()
    if forced:
        o.check(back == seq, "complement_involution", lambda: f"complement(complement({s!r})) = {str(back)!r}")
    o.check_eq(str(back), s, "complement_involution", "string after two complements")
    # reverse complement in both orders
    o.check_eq(str(seq.reverse().complement()), want[::-1], "complement_iupac_pairing", "reverse().complement()")
    o.check_eq(str(seq.complement().reverse(copy=False)), want[::-1], "complement_iupac_pairing", "complement().reverse(copy=False)")
    # complement of a view with negative stride, and of every other symbol (strided code)
    o.check_eq(str(seq.reverse(copy=False).complement()), want[::-1], "complement_iupac_pairing", "reverse(copy=False).complement()")
    o.check_eq(str(seq[::2].complement()), want[::2], "complement_iupac_pairing", "seq[::2].complement()")
    o.check_eq(str(seq), s, "complement_does_not_mutate", "original after complement() of views")
    return o


def cases_complement_symbols(tier):
    for amb in (False, True):
        for c in AMB if amb else UNAMB:
            yield {"seq": c, "amb": amb, "lower": False}
            yield {"seq": c, "amb": amb, "lower": True}


# --------------------------------------------------------------------------
# (f) codon tables, translation, ORFs
# --------------------------------------------------------------------------
def _ncbi_model(o, table_id, t):
    """-> (names, {codon: aa}, [start codons]) of an NCBI table from /verif/fixtures (not from
    biotite's data file).  `t` is the table biotite loaded: for the one entry where the stored
    snapshot and NCBI's current tables disagree (CTG of tables 27-30) the model follows `t` as
    long as it shows one of the two letters."""
    names, table, starts = c03_ncbi_tables.table(table_id)
    if table_id in c03_ncbi_tables.CTG_LEU_AT_NCBI:
        seen = t["CTG"]
        if seen == "L":
            table["CTG"] = "L"
            o.label("ncbi_27_30_CTG=L")
        else:
            o.label("ncbi_27_30_CTG=A")  # observation (notes/audit/C03_applied.md), not a listed finding
    return names, table, starts


def _load_ncbi(table_id):
    """A fresh object per case: a table changed in place by one case must not decide another one."""
    from biotite.sequence import CodonTable

    return CodonTable.load(table_id)


def st_table_spec():
    aa64 = st.text(alphabet=PROT + "**", min_size=64, max_size=64)
    codon = st.integers(0, 63)
    base = st.one_of(
        st.tuples(st.just("ncbi"), st.sampled_from(NCBI_IDS)),
        st.tuples(st.just("default")),
        st.tuples(st.just("random"), aa64, st.lists(codon, min_size=1, max_size=6)),
        st.tuples(st.just("random"), aa64, st.lists(codon, min_size=1, max_size=6)),
    )
    mod = st.one_of(
        st.tuples(st.just("starts"), st.lists(codon, min_size=1, max_size=6)),
        st.tuples(st.just("map"), st.lists(st.tuples(codon, st.integers(0, len(PROT) + 1)), min_size=1, max_size=5)),
    )
    plain_default = st.just({"base": ["default"], "mods": []})
    return st.one_of(st.fixed_dictionaries({"base": base, "mods": st.lists(mod, max_size=3)}), plain_default)


_AA_POOL = PROT + "**"


def _mk_table(o, spec):
    """-> (CodonTable, model dict, model start set).  Also checks that with_* leave the
    original table untouched."""
    from biotite.sequence import CodonTable

    base = spec["base"]
    if base[0] == "ncbi":
        t = _load_ncbi(base[1])
        _names, table, starts = _ncbi_model(o, base[1], t)
        model, mstarts = dict(table), set(starts)
    elif base[0] == "default":
        t = CodonTable.default_table()
        model, mstarts = dict(STANDARD), {"ATG"}
    else:
        model = {CODONS[i]: base[1][i] for i in range(64)}
        mstarts = {CODONS[i] for i in base[2]}
        t = CodonTable(dict(model), [CODONS[i] for i in base[2]])
    for mod in spec["mods"]:
        # (codon_dict() is slow: observe only the entries the modification touches)
        if mod[0] == "starts":
            touched = []
            before = (sorted(t.start_codons()), [])
            t2 = t.with_start_codons([CODONS[i] for i in mod[1]])
            mstarts = {CODONS[i] for i in mod[1]}
        else:
            change = {CODONS[i]: _AA_POOL[a] for i, a in mod[1]}
            touched = sorted(change)
            before = (sorted(t.start_codons()), [t[c] for c in touched])
            t2 = t.with_codon_mappings(change)
            model.update(change)
        after = (sorted(t.start_codons()), [t[c] for c in touched])
        o.check_eq(after, before, "codon_table_immutable", f"table changed by with_{mod[0]}")
        t = t2
    return t, model, mstarts


def st_translate(tier):
    n = 40 if tier == "quick" else 200
    return st.fixed_dictionaries(
        {
            "table": st_table_spec(),
            "codons": st_raws(0, n).map(lambda rs: [r % 64 for r in rs]),
            "extra": st.integers(0, 2),
            "pass_none": st.booleans(),
        }
    )


def run_translate(case):
    from biotite.sequence import NucleotideSequence, ProteinSequence

    o = Outcome()
    t, model, mstarts = _mk_table(o, case["table"])
    spec = case["table"]
    o.label("base=" + spec["base"][0], f"mods={len(spec['mods'])}", *("mod=" + m[0] for m in spec["mods"]))
    # the table itself
    o.check_eq(t.codon_dict(), model, "codon_table_lookup", "codon_dict()")
    o.check_eq(set(t.start_codons()), mstarts, "codon_table_starts", "start_codons()")
    codons = [CODONS[i] for i in case["codons"]]
    for c in sorted(set(codons))[:8]:
        o.check_eq(t[c], model[c], "codon_table_lookup", f"table[{c!r}]")
        code = tuple(UNAMB.index(x) for x in c)
        o.check_eq(int(t[code]), PROT.index(model[c]), "codon_table_lookup", f"table[{code}]")
        o.check(c in t[model[c]], "codon_table_lookup", f"{c} missing in table[{model[c]!r}]")
    aa = model[CODONS[case["codons"][0]]] if codons else "M"
    o.check_eq(sorted(t[aa]), sorted(c for c in CODONS if model[c] == aa), "codon_table_lookup", f"table[{aa!r}]")
    # the same in code form: amino acid code -> codon codes, start codons as codes
    as_code = lambda c: tuple(UNAMB.index(x) for x in c)  # noqa: E731
    got_codes = sorted(tuple(int(x) for x in cc) for cc in t[PROT.index(aa)])
    o.check_eq(got_codes, sorted(as_code(c) for c in CODONS if model[c] == aa), "codon_table_lookup", f"table[{PROT.index(aa)}] (code of {aa!r})")
    got_starts = {tuple(int(x) for x in cc) for cc in t.start_codons(code=True)}
    o.check_eq(got_starts, {as_code(c) for c in mstarts}, "codon_table_starts", "start_codons(code=True)")
    # complete translation
    dna = "".join(codons)
    want = "".join(model[c] for c in codons)
    seq = NucleotideSequence(dna)
    use_none = case["pass_none"] and spec["base"][0] == "default" and not spec["mods"]
    prot = seq.translate(complete=True) if use_none else seq.translate(complete=True, codon_table=t)
    if use_none:
        o.label("default_table_implicit")
    if o.check(isinstance(prot, ProteinSequence), "translate_complete_equals_lookup", f"type {type(prot).__name__}"):
        o.check_eq(str(prot), want, "translate_complete_equals_lookup", f"translate({dna!r}, complete=True)")
    o.check_eq(str(seq), dna, "translate_does_not_mutate", "sequence after translate")
    if case["extra"]:
        o.label("length_not_multiple_of_3")
        seq2 = NucleotideSequence(dna + "AC"[: case["extra"]])
        # documented as a precondition ("the sequence length must be a multiple of 3"): an error of any type
        _must_raise_anything(o, lambda: seq2.translate(complete=True, codon_table=t), "translate_complete_requires_multiple_of_3", f"length {len(dna) + case['extra']}", label="not_multiple_of_3_raised")
    o.label("empty" if not codons else "nonempty")
    o.mark_nontrivial(len(codons) >= 4)
    return o


def model_orfs(dna, table, starts, met_start, start_may_stop=True):
    """Naive scan: every position holding a start codon opens a frame that runs in steps of
    three up to and including the first stop codon, or to the last complete codon."""
    out = []
    n = len(dna)
    for p in range(0, n - 2):
        if dna[p : p + 3] not in starts:
            continue
        prot = []
        q = p
        first = True
        while q + 3 <= n:
            aa = table[dna[q : q + 3]]
            prot.append(aa)
            q += 3
            if aa == "*" and (start_may_stop or not first):
                break
            first = False
        if met_start:
            prot[0] = "M"
        out.append((p, q, "".join(prot)))
    return sorted(out)


def _orf_item(r):
    kind, v = r % 8, r >> 3
    if kind <= 3:
        return ["c", v % 64]  # any codon
    if kind <= 5:
        return ["s", v]  # v-th start codon of the table
    if kind == 6:
        return ["x", v]  # v-th stop codon of the table
    return ["n", v % 4]  # a single nucleotide: shifts the frame


def st_orfs(tier):
    n = 30 if tier == "quick" else 120
    return st.fixed_dictionaries(
        {
            "table": st_table_spec(),
            "items": st_raws(0, n).map(lambda rs: [_orf_item(r) for r in rs]),
            "met_start": st.booleans(),
            "pass_none": st.booleans(),
        }
    )


def run_orfs(case):
    from biotite.sequence import NucleotideSequence, ProteinSequence

    o = Outcome()
    t, model, mstarts = _mk_table(o, case["table"])
    spec = case["table"]
    starts = sorted(mstarts)
    stops = sorted(c for c in CODONS if model[c] == "*")
    parts = []
    for it in case["items"]:
        if it[0] == "c":
            parts.append(CODONS[it[1]])
        elif it[0] == "s":
            parts.append(starts[it[1] % len(starts)])
        elif it[0] == "x":
            parts.append(stops[it[1] % len(stops)] if stops else "TAA")
        else:
            parts.append(UNAMB[it[1]])
    dna = "".join(parts)
    met = case["met_start"]
    seq = NucleotideSequence(dna)
    use_none = case["pass_none"] and spec["base"][0] == "default" and not spec["mods"]
    kwargs = {} if use_none else {"codon_table": t}
    if met:
        kwargs["met_start"] = True
    res = seq.translate(**kwargs) if case["pass_none"] else seq.translate(complete=False, **kwargs)
    if not o.check(isinstance(res, tuple) and len(res) == 2, "orf_result_shape", f"translate() returned {type(res).__name__}"):
        return o
    prots, pos = res
    if not o.check_eq(len(prots), len(pos), "orf_result_shape", "number of proteins vs positions"):
        return o
    o.check(all(isinstance(p, ProteinSequence) for p in prots), "orf_result_shape", "ORFs are not ProteinSequence objects")
    got = sorted((int(a), int(b), str(p)) for p, (a, b) in zip(prots, pos))
    want = model_orfs(dna, model, mstarts, met)
    start_is_stop = any(model[s] == "*" for s in mstarts)
    alt = model_orfs(dna, model, mstarts, met, start_may_stop=False) if start_is_stop else want
    if want != alt:
        # a start codon that is also a stop codon: the statement can be read both ways
        o.label("start_codon_is_stop_codon")
        ok = got in (want, alt)
    else:
        ok = got == want
    o.check(ok, "orfs_exactly_start_to_first_stop_or_frame_end", lambda: f"dna={dna!r} starts={starts} stops={stops} met_start={met}: got {got}, want {want}")
    o.check_eq(str(seq), dna, "translate_does_not_mutate", "sequence after translate")
    # labels
    frames = {p % 3 for p, _q, _s in want}
    o.label("base=" + spec["base"][0], f"orfs={min(len(want), 4)}{'+' if len(want) > 4 else ''}", f"frames={len(frames)}", "met_start" if met else "no_met_start")
    if any(not s.endswith("*") for _p, _q, s in want):
        o.label("orf_open_at_frame_end")
    if any(s.endswith("*") for _p, _q, s in want):
        o.label("orf_closed_by_stop")
    if met and any(model[dna[p : p + 3]] != "M" for p, _q, _s in want):
        o.label("met_start_changes_first_residue")
    if len(dna) < 3:
        o.label("shorter_than_codon")
    o.mark_nontrivial(len(want) >= 1)
    return o


def cases_codon_tables(tier):
    for tid in NCBI_IDS:
        for i in range(64):
            yield {"id": tid, "codon": i}


def run_codon_tables(case):
    from biotite.sequence import CodonTable, NucleotideSequence

    o = Outcome()
    tid, codon = case["id"], CODONS[case["codon"]]
    t = _load_ncbi(tid)
    names, table, starts = _ncbi_model(o, tid, t)
    aa = table[codon]
    if tid == 1:
        o.check_eq(aa, STANDARD[codon], "ncbi_standard_table", f"stored table 1 vs the hard-coded NCBI table 1 for {codon}")
        o.check_eq(sorted(starts), ["ATG", "CTG", "TTG"], "ncbi_standard_table", "start codons of table 1")
    o.check_eq(t[codon], aa, "codon_table_lookup", f"load({tid})[{codon!r}]")
    code = tuple(UNAMB.index(x) for x in codon)
    o.check_eq(int(t[code]), PROT.index(aa), "codon_table_lookup", f"load({tid})[{code}]")
    o.check_eq(int(t.map_codon_codes(np.array([code]))[0]), PROT.index(aa), "codon_table_lookup", "map_codon_codes")
    o.check_eq(str(NucleotideSequence(codon).translate(complete=True, codon_table=t)), aa, "translate_complete_equals_lookup", f"table {tid} codon {codon}")
    is_start = codon in starts
    o.check_eq(codon in t.start_codons(), is_start, "codon_table_starts", f"table {tid}: {codon} in start_codons()")
    for shift in range(3):
        dna = "G" * shift + codon  # 'G', 'GG' never complete a second codon
        prots, pos = NucleotideSequence(dna).translate(codon_table=t)
        got = [(int(a), int(b), str(p)) for p, (a, b) in zip(prots, pos)]
        want = model_orfs(dna, table, set(starts), False)
        o.check_eq(got, want, "orfs_exactly_start_to_first_stop_or_frame_end", f"table {tid} dna {dna}")
    if case["codon"] == 0:
        # names: the stored ones that biotite still offers must give the same table as the id
        offered = set(CodonTable.table_names())
        known = [name for name in names if name in offered]
        o.label("table_name_offered" if known else "table_names_all_renamed")
        for name in known:
            o.check(CodonTable.load(name) == t, "codon_table_lookup", f"load({name!r}) != load({tid})")
        o.check_eq(t.codon_dict(), table, "codon_table_lookup", f"codon_dict() of table {tid}")
        by_code = {tuple(int(x) for x in k): int(v) for k, v in t.codon_dict(code=True).items()}
        want_code = {tuple(UNAMB.index(x) for x in c): PROT.index(a) for c, a in table.items()}
        o.check_eq(by_code, want_code, "codon_table_lookup", f"codon_dict(code=True) of table {tid}")
    o.label("start" if is_start else "no_start", "stop" if aa == "*" else "sense")
    o.mark_nontrivial(is_start or aa == "*")
    return o


# --------------------------------------------------------------------------
# (g) KmerAlphabet
# --------------------------------------------------------------------------
def model_kmers(codes, n_base, positions):
    span = positions[-1] + 1
    out = []
    for i in range(len(codes) - span + 1):
        v = 0
        for p in positions:
            v = v * n_base + codes[i + p]
        out.append(v)
    return out


def st_kmer(tier):
    # all strategies are built once here (building them inside the composite costs ~10 ms per example)
    raw = st.integers(0, 10**6)
    hi = 60 if tier == "quick" else 300
    st_one_or_two = st.one_of(
        st_letter_spec(max_size=2, min_size=2), st.sampled_from([2, 2, 2, 1]).map(lambda m: {"kind": "range", "n": m, "offset": 0}), st_letter_spec(max_size=1)
    )
    base_st = st.one_of(
        st_generic_spec(min_size=3), st_letter_spec(min_size=3), st_range_spec(3, 300),
        st_letter_spec(min_size=3), st_range_spec(3, 40), st_one_or_two,
    )  # fmt: skip
    bad_st = st.one_of(
        st.tuples(st.just("len"), st.integers(0, 3)),
        st.tuples(st.just("len"), st.integers(1, 300)),
        st.tuples(st.just("len"), st.integers(1, 300)),
        st.tuples(st.just("neg"), st.integers(1, 3)),
    )
    long_seq = st_raws(0, hi)

    # large k over small alphabets (DNA-like: k = 8..31, the k-mer alphabet has up to 2**62 symbols)
    small_base_st = st.one_of(
        st.sampled_from([UNAMB, "ACGU", "01", "xyz"]).map(lambda b: {"kind": "letter", "symbols": b, "ctor": "str"}),
        st.integers(2, 4).map(lambda m: {"kind": "range", "n": m, "offset": 0}),
    )

    def _max_k(nb):
        k = 2
        while nb ** (k + 1) < 2**63 and k < 40:
            k += 1
        return k

    def _big_spacing(t):
        """(form, k, raw gaps) -> k informative positions out of 0..k+3, reversed (i.e. unsorted)"""
        form, k, gaps = t
        if form is None:
            return (None, None)
        keep = [i for i in range(k + 4) if i not in {g % (k + 4) for g in gaps}][:k]
        return (form, keep[::-1])

    def for_big_k():
        def build(t):
            base, kraw, form, gaps, rest = t
            nb = len(base["symbols"]) if base["kind"] == "letter" else base["n"]
            kmax = _max_k(nb)
            k = kmax - kraw % 4 if kraw % 3 == 0 else 8 + kraw % (kmax - 7)  # one in three: at the upper end
            d = dict(rest)
            d.update({"base": base, "k": k, "sp": _big_spacing((form, k, gaps)), "bad_j": rest["bad_j"] % k})
            return d

        rest = st.fixed_dictionaries(
            {
                "seq": st.one_of(long_seq, long_seq, st_raws(0, 14)),
                "dtype": st.sampled_from(UINT_DTYPES),
                "bad": bad_st,
                "bad_window": raw,
                "bad_j": st.integers(0, 39),
                "kmer_code": st.integers(-3, 3),
            }
        )
        return st.tuples(
            small_base_st,
            st.integers(0, 255),
            st.sampled_from([None, "str", "list", "ndarray"]),
            st.lists(st.integers(0, 40), max_size=4),
            rest,
        ).map(build)

    def for_k(k):
        spacing = st.one_of(
            st.tuples(st.none(), st.none()),
            st.tuples(
                st.sampled_from(["str", "list", "ndarray"]),
                st.lists(st.integers(0, k + 4), min_size=k, max_size=k, unique=True),
            ),
        )
        return st.fixed_dictionaries(
            {
                "base": base_st,
                "k": st.just(k),
                "sp": spacing,
                "seq": st.one_of(long_seq, long_seq, st_raws(0, 14)),
                "dtype": st.sampled_from(UINT_DTYPES),
                "bad": bad_st,
                "bad_window": raw,
                "bad_j": st.integers(0, k - 1),
                "kmer_code": st.integers(-3, 3),
            }
        )

    def flatten(d):
        d = dict(d)
        d["spacing_form"], d["spacing"] = d.pop("sp")
        d["bad"] = list(d["bad"])
        return d

    return st.one_of(*[for_k(k) for k in (2, 3, 4, 5)], for_big_k()).map(flatten)


_F2 = "C03-F2"  # open finding: fuse() of uint64 codes is computed in float64 (wrong beyond 2**53)
_F2_CLAUSE = "kmer_fuse_uint64_codes"


def _is_f1_class(bad):
    """KmerAlphabet.fuse: a code equal to len(base alphabet), or a negative code."""
    return bad[0] == "neg" or (bad[0] == "len" and bad[1] == 0)


def run_kmer(case):
    from biotite.sequence.align import KmerAlphabet

    o = Outcome()
    AlphabetError = _AlphabetError()
    base, syms = _mk_alphabet(case["base"])
    kind = case["base"]["kind"]
    nb, k = len(syms), case["k"]
    form = case["spacing_form"]
    if form is None:
        positions = list(range(k))
        ka = KmerAlphabet(base, k)
    else:
        positions = sorted(case["spacing"])
        if form == "str":
            arg = "".join("1" if i in positions else "0*-"[i % 3] for i in range(positions[-1] + 1))
        elif form == "list":
            arg = list(case["spacing"])  # unsorted
        else:
            arg = np.array(case["spacing"], dtype=np.int64)
        ka = KmerAlphabet(base, k, spacing=arg)
        # (documented: the attribute holds the informative positions; their order is not)
        o.check_eq(sorted(int(x) for x in ka.spacing), positions, "kmer_spacing_model", f"spacing attribute for {arg!r}")
    span = positions[-1] + 1
    codes = [r % nb for r in case["seq"]]
    n = len(codes)
    dt = case["dtype"]
    if nb - 1 > np.iinfo(dt).max:
        dt = "uint16"
    total = nb**k
    beyond_float = total > 2**53  # k-mer codes that a float64 cannot hold exactly
    o.label(kind, _size_label(nb), f"k={k}" if k <= 5 else ("k=6..15" if k <= 15 else "k>=16"), "spaced" if form else "continuous", "spacing=" + str(form))
    o.label("kmers>2**53" if beyond_float else ("kmers>2**32" if total > 2**32 else "kmers<=2**32"))
    o.check_eq(len(ka), total, "kmer_alphabet_size", "len(KmerAlphabet)")
    o.check_eq(ka.k, k, "kmer_alphabet_size", "k")

    arr = np.array(codes, dtype=dt)
    if n < span:
        # Not a single window fits.  Nothing is documented for this input: an error of any type or
        # an empty array are both in order, k-mers are not.
        o.label("too_short")
        try:
            got = ka.create_kmers(arr)
        except Exception as e:  # noqa: BLE001 - the type is recorded, not judged
            o.label(f"too_short_raised={type(e).__name__}")
        else:
            o.label("too_short_returned_empty")
            o.check(isinstance(got, np.ndarray) and got.shape == (0,), "kmer_too_short_sequence_gives_no_kmers", lambda: f"create_kmers on length {n} with span {span} returned {got!r:.200}")
        want = []
    else:
        want = model_kmers(codes, nb, positions)
        got = ka.create_kmers(arr)
        o.check_array_eq(got, np.array(want, dtype=np.int64), "create_kmers_equals_sliding_window", f"create_kmers(k={k}, spacing={positions}, n_base={nb}, dtype={dt})")
        o.check_eq(int(ka.kmer_array_length(n)), len(want), "create_kmers_equals_sliding_window", "kmer_array_length")
        # the same sequence code as a view with a stride
        got = ka.create_kmers(np.repeat(arr, 2)[::2])
        o.check_array_eq(got, np.array(want, dtype=np.int64), "create_kmers_equals_sliding_window", f"create_kmers(strided view, k={k}, spacing={positions}, n_base={nb}, dtype={dt})")
        o.label("windows>=4" if len(want) >= 4 else "windows<4")
    o.mark_nontrivial(len(want) >= 4 and nb >= 3)

    # fuse / split on the windows (vectorised and single)
    windows = [[codes[i + p] for p in positions] for i in range(len(want))]

    def exact(a):
        """uint64 symbol codes as fuse() input: while C03-F2 is open the k-mer alphabets beyond
        2**53 symbols get them as int64 (the narrowed class is counted)."""
        a = np.asarray(a)
        if beyond_float and a.dtype == np.uint64 and findings.is_open(_F2) and not case.get("no_narrow"):
            if _F2 not in o.excluded:
                o.exclude(_F2)
            return a.astype(np.int64)
        return a

    def digits(c):
        out = []
        for _ in range(k):
            out.append(c % nb)
            c //= nb
        return out[::-1]

    # k-mer codes at the ends of the alphabet and around 2**32 / 2**53
    for c in sorted(v for v in {0, 1, total // 2 + 1, total - 2, total - 1, 2**32 - 1, 2**32 + 1, 2**53 - 1, 2**53 + 1} if 0 <= v < total):
        o.check_eq([int(x) for x in ka.split(c)], digits(c), "kmer_split_inverts_fuse", f"split({c}) with {total} k-mers")
        o.check_eq(int(ka.fuse(np.array(digits(c), dtype=np.int64))), c, "kmer_fuse", f"fuse(digits of {c}) with {total} k-mers")
        o.check_eq(int(ka.fuse(exact(ka.split(c)))), c, _F2_CLAUSE, f"fuse(split({c})) with {total} k-mers")
        o.check_eq(int(ka.encode(ka.decode(c))), c, "encode_decode_identity", f"k-mer code {c} of {total}")
    if windows:
        w2 = np.array(windows, dtype=np.int64)
        fused = ka.fuse(w2)
        o.check_array_eq(fused, np.array(want, dtype=np.int64), "kmer_fuse", "fuse((n,k) array)")
        split = ka.split(np.array(want, dtype=np.int64))
        o.check_array_eq(split, w2, "kmer_split_inverts_fuse", "split(array)")
        for i in sorted({0, len(windows) // 2, len(windows) - 1}):
            w = windows[i]
            o.check_eq(int(ka.fuse(exact(np.array(w, dtype=dt)))), want[i], _F2_CLAUSE if dt == "uint64" else "kmer_fuse", f"fuse({w}) as {dt}")
            o.check_eq([int(x) for x in ka.split(want[i])], w, "kmer_split_inverts_fuse", f"split({want[i]})")
            o.check_eq(int(ka.fuse(exact(ka.split(want[i])))), want[i], _F2_CLAUSE, f"fuse(split({want[i]}))")
            # symbol level: a k-mer symbol is the sequence of its base symbols
            ksym = [syms[c] for c in w]
            sym_arg = "".join(ksym) if kind == "letter" else list(ksym)
            o.check_eq(int(ka.encode(sym_arg)), want[i], "kmer_encode", f"encode({sym_arg!r})")
            o.check_eq([_plain(x) for x in ka.decode(want[i])], ksym, "kmer_decode", f"decode({want[i]})")
            o.check_eq(int(ka.encode(ka.decode(want[i]))), want[i], "encode_decode_identity", f"k-mer code {want[i]}")
        some = sorted({0, len(windows) - 1})
        many_syms = [("".join(syms[c] for c in windows[i]) if kind == "letter" else [syms[c] for c in windows[i]]) for i in some]
        o.check_eq([int(x) for x in ka.encode_multiple(many_syms)], [want[i] for i in some], "kmer_encode", "encode_multiple")
        dec = ka.decode_multiple(np.array([want[i] for i in some], dtype=np.int64))
        o.check_eq([[_plain(x) for x in d] for d in dec], [[syms[c] for c in windows[i]] for i in some], "kmer_decode", "decode_multiple")

    # ---- rejection
    cl = "code_outside_range_raises_AlphabetError"
    # k-mer codes around the ends of the k-mer alphabet
    kc = case["kmer_code"]
    kcode = total + kc if kc >= 0 else kc
    _must_reject(o, lambda: ka.split(kcode), cl, f"split({kcode}) with {total} k-mers")
    _must_reject(o, lambda: ka.split(np.array([0, kcode], dtype=np.int64)), cl, f"split([0, {kcode}])")
    _must_reject(o, lambda: ka.decode(kcode), cl, f"decode({kcode}) with {total} k-mers")
    # base codes outside the base alphabet
    bad = case["bad"]
    j = case["bad_j"]
    fbad = bad
    if _is_f1_class(bad) and findings.is_open("C03-F1") and not case.get("no_narrow"):
        o.exclude("C03-F1")  # narrows the two fuse() calls only
        fbad = ["len", 1 + bad[1]]
    fcode = nb + fbad[1] if fbad[0] == "len" else -fbad[1]
    w = [0] * k
    w[j] = fcode
    o.label("fuse_bad=" + ("len" if fcode == nb else ("len+" if fcode > nb else "neg")))
    _must_reject(o, lambda: ka.fuse(np.array(w, dtype=np.int64)), "kmer_fuse_rejects_invalid_code", f"fuse({w}) with base alphabet of {nb}")
    _must_reject(o, lambda: ka.fuse(np.array([[0] * k, w], dtype=np.int64)), "kmer_fuse_rejects_invalid_code", f"fuse([[0..], {w}]) with base alphabet of {nb}")
    # the code as drawn (not narrowed) inside a sequence, at an informative position of some window
    badcode = nb + bad[1] if bad[0] == "len" else -bad[1]
    if want and bad[0] == "len":
        o.label("create_kmers_bad=" + ("len" if badcode == nb else "len+"))
        wi = case["bad_window"] % len(want)
        p = wi + positions[j]
        dt2 = dt if badcode <= np.iinfo(dt).max else ("uint16" if badcode <= 65535 else "uint32")
        arr2 = np.array(codes, dtype=dt2)
        arr2[p] = badcode
        _must_reject(o, lambda: ka.create_kmers(arr2), cl, f"create_kmers with code {badcode} at {p}, base alphabet of {nb}")
    # symbols outside: wrong length, foreign symbol
    cls = "symbol_outside_alphabet_raises_AlphabetError"
    good = [syms[0]] * k
    for wrong in (good[:-1], good + [syms[0]]):
        arg = "".join(wrong) if kind == "letter" else list(wrong)
        # (a malformed symbol rather than a foreign one: a shape error is as good as an AlphabetError)
        _must_reject(o, lambda: ka.encode(arg), cls, f"encode of a {len(wrong)}-mer in a {k}-mer alphabet", exc=(AlphabetError, ValueError))
    if kind == "letter":
        non = [c for c in PRINTABLES + " " if c not in syms]
        foreign = list(good)
        foreign[j] = non[case["bad_window"] % len(non)]
        _must_reject(o, lambda: ka.encode("".join(foreign)), cls, f"encode({''.join(foreign)!r})")
    else:
        foreign = list(good)
        foreign[j] = _outsider_generic(("verif_foreign",), syms)
        _must_reject(o, lambda: ka.encode(foreign), cls, f"encode({foreign!r})")
    return o


def _f1_predicate(sub, case, clause, message):
    return sub == "kmer_alphabet" and clause == "kmer_fuse_rejects_invalid_code" and _is_f1_class(case["bad"])


def _n_base(spec):
    return spec["n"] if spec["kind"] == "range" else len(spec["symbols"])


def _f2_predicate(sub, case, clause, message):
    """fuse() of uint64 symbol codes in a k-mer alphabet of more than 2**53 symbols."""
    return sub == "kmer_alphabet" and clause == _F2_CLAUSE and _n_base(case["base"]) ** case["k"] > 2**53


SUBS = [
    Sub(
        "alphabet_roundtrip",
        st_roundtrip,
        run_roundtrip,
        quick=4800,
        thorough=120000,
        rule="sequence length >= 4 and alphabet size >= 3",
        clauses="decode(encode(x)) == x, encode(decode(c)) == c; single and multiple forms agree (str/bytes/list/tuple/ndarray, all integer dtypes)",
    ),
    Sub(
        "symbol_rejection",
        st_symbol_rejection,
        run_symbol_rejection,
        quick=4000,
        thorough=100000,
        rule="valid body of length >= 4 around the outsider, alphabet size >= 3",
        clauses="a symbol outside the alphabet anywhere in a sequence raises AlphabetError (alphabets, GeneralSequence, NucleotideSequence, ProteinSequence, item assignment)",
    ),
    Sub(
        "invalid_codes",
        st_invalid_codes,
        run_invalid_codes,
        quick=4000,
        thorough=100000,
        rule="code one step outside (-1 or len) or congruent to a valid code modulo 2**8/2**16/2**32, inside a code array of length >= 4",
        clauses="a code outside the range raises AlphabetError in decode/decode_multiple/Sequence.symbols/str(); is_valid() is False",
    ),
    Sub(
        "mapper",
        st_mapper,
        run_mapper,
        quick=4000,
        thorough=100000,
        rule="permuted target alphabet, >= 4 codes, source size >= 3",
        clauses="target.decode(mapper[c]) == source.decode(c), scalar and array (also strided / reversed views); a target lacking a source symbol gives an error (any type) and never a mapped value",
    ),
    Sub(
        "sequence_ops",
        st_seq_ops,
        run_seq_ops,
        quick=6400,
        thorough=160000,
        rule="initial length >= 4, alphabet size >= 3, >= 2 effective operations",
        clauses="construction, str(), symbols, code, int/slice/mask/index-array get and set, +, reverse, ==, copy independence, is_valid agree with a Python list of symbols after every step",
    ),
    Sub(
        "complement",
        st_complement,
        run_complement,
        quick=3200,
        thorough=80000,
        rule="sequence length >= 4",
        clauses="complement follows the IUPAC pairing (derived from the ambiguity sets), is an involution, keeps the alphabet, does not mutate",
    ),
    Sub(
        "translate_complete",
        st_translate,
        run_translate,
        quick=3200,
        thorough=80000,
        rule=">= 4 codons",
        clauses="translate(complete=True) == per-codon lookup; codon_dict/table[codon]/table[code]/table[aa]/start_codons agree with the model table after with_start_codons/with_codon_mappings (string and code forms); NCBI tables vs the tables stored in fixtures/c03_ncbi_tables.py; length not a multiple of 3 -> an error",
    ),
    Sub(
        "orfs",
        st_orfs,
        run_orfs,
        quick=4800,
        thorough=120000,
        rule=">= 1 start codon present in the sequence (>= 1 expected ORF)",
        clauses="translate(complete=False) reports exactly the stretches from each start codon (any frame) to the first stop codon or the frame end, with positions; met_start variant; compared as sorted lists",
    ),
    Sub(
        "kmer_alphabet",
        st_kmer,
        run_kmer,
        quick=4800,
        thorough=120000,
        rule=">= 4 k-mers in the sequence and base alphabet size >= 3",
        clauses="create_kmers == naive sliding window (continuous and spaced, all uint dtypes, strided view; k = 2..5 over any base alphabet, k = 8..40 over 2..4 symbols); split(fuse(c)) == c and fuse(split(c)) == c (uint64 codes), also at both ends of the k-mer alphabet and around 2**32 / 2**53; k-mer symbol encode/decode; too short -> an error or no k-mers; invalid base codes, k-mer codes and foreign symbols -> AlphabetError; k-mer symbol of the wrong length -> AlphabetError or ValueError",
    ),
]

# --------------------------------------------------------------------------
# (c2) mapping between wide alphabets: sizes around the 8 and 16 bit code widths
# --------------------------------------------------------------------------
_WIDE_SIZES = [255, 256, 257, 300, 65535, 65536, 65537, 70000]


def cases_mapper_wide(tier):
    for n in _WIDE_SIZES:
        for mode in ("reversed", "rotated", "extended"):
            yield {"n": n, "mode": mode}
    # k-mer alphabets as source and target (base alphabet reversed / enlarged in the target)
    for nb, k, tb in ((4, 4, 5), (16, 2, 17), (17, 4, 17)):
        yield {"n": nb**k, "mode": "kmer", "nb": nb, "k": k, "tb": tb}


def run_mapper_wide(case):
    from biotite.sequence import Alphabet, AlphabetMapper

    o = Outcome()
    n, mode = case["n"], case["mode"]
    probe_all = (0, 1, 6, 7, 8, 127, 128, 254, 255, 256, 257, 32767, 32768, 65534, 65535, 65536, 65537, n - 2, n - 1)
    if mode == "kmer":
        from biotite.sequence.align import KmerAlphabet

        nb, k, tb = case["nb"], case["k"], case["tb"]
        src = KmerAlphabet(Alphabet(list(range(nb))), k)
        tgt = KmerAlphabet(Alphabet(list(range(tb))[::-1]), k)  # base symbol v has the code tb-1-v
        mapper = AlphabetMapper(src, tgt)
        o.label(f"n={n}", mode, "tgt>65536" if tb**k > 65536 else ("tgt>256" if tb**k > 256 else "tgt<=256"))
        o.mark_nontrivial()

        def ksym(c):
            return [(c // nb ** (k - 1 - i)) % nb for i in range(k)]

        def tcode(c):
            v = 0
            for d in ksym(c):
                v = v * tb + (tb - 1 - d)
            return v

        probe = sorted({c for c in probe_all if 0 <= c < n})
        cl = "mapper_preserves_symbols"
        for c in probe:
            o.check_eq(int(mapper[c]), tcode(c), cl, f"k-mer code {c} of {n}")
            o.check_eq([int(x) for x in tgt.decode(mapper[c])], ksym(c), cl, f"symbol of k-mer code {c} of {n}")
        for name, arr in _code_forms(probe):
            o.check_eq([int(x) for x in mapper[arr]], [tcode(c) for c in probe], cl, f"mapper[{name} array] between k-mer alphabets of {n} and {tb**k}")
        o.check_eq(np.asarray(mapper[np.arange(n)]).tolist(), [tcode(c) for c in range(n)], cl, f"all {n} k-mer codes")
        return o
    syms = list(range(n))
    if mode == "reversed":
        tsyms = syms[::-1]
    elif mode == "rotated":
        tsyms = syms[7:] + syms[:7]
    else:
        tsyms = [-1, -2, -3] + syms
    src, tgt = Alphabet(syms), Alphabet(tsyms)
    mapper = AlphabetMapper(src, tgt)
    o.label(f"n={n}", mode)
    o.mark_nontrivial()
    probe = sorted({c for c in probe_all if 0 <= c < n})
    cl = "mapper_preserves_symbols"
    for c in probe:
        o.check_eq(_plain(tgt.decode(mapper[c])), c, cl, f"scalar code {c} of {n}")
    for name, arr in _code_forms(probe):
        m = mapper[arr]
        o.check_eq([_plain(x) for x in tgt.decode_multiple(m)], probe, cl, f"mapper[{name} array] over an alphabet of {n}")
    # every code at once
    allc = np.arange(n)
    o.check_eq(np.asarray(tgt.decode_multiple(mapper[allc])).tolist(), syms, cl, f"all {n} codes")
    return o


ENUMS = [
    Enum(
        "byte_rejection",
        cases_byte_rejection,
        run_byte_rejection,
        rule="byte value adjacent to (or the other case of) a letter of the alphabet but not in it",
        clauses="every one of the 256 byte values is either encoded to its index or rejected with AlphabetError, in all input forms",
        exhaustive=True,
    ),
    Enum(
        "code_rejection",
        cases_code_rejection,
        run_code_rejection,
        rule="code -1, len, or 256*m + valid code",
        clauses="boundary codes x 12 alphabets x all integer dtypes: decoded iff 0 <= code < len, else AlphabetError",
        exhaustive=True,
    ),
    Enum(
        "mapper_wide",
        cases_mapper_wide,
        run_mapper_wide,
        rule="source alphabet of 255..70000 symbols mapped onto a reversed, rotated or extended target; k-mer alphabets of 256 / 83521 symbols mapped onto k-mer alphabets over a reversed (and larger) base alphabet",
        clauses="codes on both sides of the 8 and 16 bit boundaries keep their symbols, scalar and array form, every integer dtype",
        exhaustive=True,
    ),
    Enum(
        "complement_symbols",
        cases_complement_symbols,
        run_complement,
        rule="every symbol of both nucleotide alphabets, upper and lower case input",
        clauses="complement of each single symbol follows the IUPAC table",
        exhaustive=True,
    ),
    Enum(
        "codon_tables",
        cases_codon_tables,
        run_codon_tables,
        rule="codon is a start or a stop codon of the table",
        clauses="all 64 codons x all 25 NCBI tables: lookup, complete translation and ORF detection of the single codon in every frame offset",
        exhaustive=True,
    ),
]

FINDINGS = {
    "kmer_fuse_code_equal_len_or_negative": _f1_predicate,
    "kmer_fuse_uint64_promotes_to_float": _f2_predicate,
}
