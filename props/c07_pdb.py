"""
C07  PDB files round-trip structures and never emit shifted columns; hybrid-36.

Oracles
-------
* column grammar: a purely syntactic description of an ATOM/HETATM record
  (one regular expression per fixed column range) and of CRYST1, evaluated on
  every line ``PDBFile.set_structure`` produced - also for over-limit input;
* round trip: ``set_structure`` -> text -> ``PDBFile.read`` -> ``get_structure``
  compared with the plain-data case (not with the array that was written);
* "fits the column after rounding" is decided exactly with ``decimal`` on the
  binary value that is stored in the array (``fits_fixed``);
* hybrid-36: a pure Python transcription of the hybrid-36 specification.
"""

import io
import re
import warnings
from decimal import ROUND_HALF_EVEN, Decimal

import numpy as np
from hypothesis import strategies as st

from vlib import Enum, Outcome, Sub, findings

PROPERTY = "C07"
RULE = (
    "small structures (1-12 atoms, 1-3 models) whose numeric fields are drawn from pools of "
    "float32/float64 neighbours of every column limit and rounding knife edge; non-trivial = a "
    "coordinate / B-factor / occupancy / box length within 2 ulps of a column boundary or knife "
    "edge, an id at a wrap point or sign/width boundary, or (hybrid-36) an id beyond the decimal range"
)

H36_L6_FIRST_BAD = 1543821888  # first value whose base-36 transform overflows a C int at length 6


# --------------------------------------------------------------------------
# exact "does it fit" model and value pools
# --------------------------------------------------------------------------
def fits_fixed(v, decimals, width):
    """Exactly: does the correctly rounded fixed point text of the binary value v
    need at most `width` characters?"""
    v = float(v)
    if v != v or abs(v) >= 1e15:
        return False
    q = Decimal(v).quantize(Decimal(1).scaleb(-decimals), rounding=ROUND_HALF_EVEN)
    return len(format(q, "f")) <= width


def f32(v):
    return float(np.float32(v))


def step32(v, k):
    x = np.float32(v)
    d = np.float32(np.inf if k > 0 else -np.inf)
    for _ in range(abs(k)):
        x = np.nextafter(x, d, dtype=np.float32)
    return float(x)


def step64(v, k):
    x = float(v)
    for _ in range(abs(k)):
        x = float(np.nextafter(x, np.inf if k > 0 else -np.inf))
    return x


def ulp32(v):
    v = abs(float(v))
    return float(np.spacing(np.float32(v)))


def _pool(centers, decimals, width, steps32=3, steps64=0):
    inside, outside = set(), set()
    for c in centers:
        cand = [step32(c, k) for k in range(-steps32, steps32 + 1)]
        if steps64:
            cand += [step64(c, k) for k in range(-steps64, steps64 + 1)]
        for v in cand:
            (inside if fits_fixed(v, decimals, width) else outside).add(v)
    return sorted(inside), sorted(outside)


# coordinates: %8.3f
COORD_LIMIT_CENTERS = [-999.999, -999.9995, 9999.999, 9999.9995]
COORD_OTHER_CENTERS = [
    0.0, 0.0005, -0.0005, 0.0625, -0.0625, 0.1875, 9.9995, 99.9995, 999.9995, -9.9995, -99.9995,
    1000.0, -100.0, 0.001, -0.001, 1234.5675, -123.4565,
]
COORD_EDGE_IN, COORD_EDGE_OUT = _pool(COORD_LIMIT_CENTERS, 3, 8, steps32=3)
COORD_NEAR = set(
    v for c in COORD_LIMIT_CENTERS for k in range(-2, 3) for v in [step32(c, k)] if fits_fixed(v, 3, 8)
)
COORD_OTHER_IN, _ = _pool(COORD_OTHER_CENTERS, 3, 8, steps32=2)
COORD_FAR_OUT = [-1000.0, 10000.0, -1000.5, 10000.25, 1.0e5, -1.0e4, 1.0e9, -3.0e38]

# B-factor / occupancy: %6.2f
BF_LIMIT_CENTERS = [999.99, 999.995, -99.99, -99.995]
BF_OTHER_CENTERS = [0.0, 0.005, -0.005, 0.125, -0.125, 0.375, 9.995, 99.995, -9.995, 1.0, 100.0, -10.0, 12.345]
BF_EDGE_IN, BF_EDGE_OUT = _pool(BF_LIMIT_CENTERS, 2, 6, steps32=3, steps64=2)
BF_NEAR = set(
    v
    for c in BF_LIMIT_CENTERS
    for k in range(-2, 3)
    for v in (step32(c, k), step64(c, k))
    if fits_fixed(v, 2, 6)
)
BF_OTHER_IN, _ = _pool(BF_OTHER_CENTERS, 2, 6, steps32=2, steps64=1)
BF_FAR_OUT = [1000.0, -100.0, 1000.5, -100.25, 1.0e6, -1.0e5, 1.0e300]

# box lengths: %9.3f (only axis aligned vectors carry near-limit lengths, their norm is exact)
BOX_LIMIT_CENTERS = [99999.99, 99999.9995]
BOX_EDGE_IN, BOX_EDGE_OUT = _pool(BOX_LIMIT_CENTERS, 3, 9, steps32=3)
BOX_EDGE_IN = [v for v in BOX_EDGE_IN if v > 0]
BOX_OTHER = [0.001, 0.0625, 1.0, 9.9995, 10.5, 99.9995, 999.9995, 9999.9995, 12345.678, 54321.0]
BOX_FAR_OUT = [100000.0, 100000.5, 1.0e6, 1.0e12]
CELL_ANGLES = [
    [90.0, 90.0, 90.0], [90.0, 112.5, 90.0], [90.0, 90.0, 120.0], [60.0, 60.0, 60.0],
    [80.0, 95.0, 110.0], [100.5, 89.25, 75.13], [90.0, 61.005, 90.0], [119.995, 90.0, 90.0],
    # nearly orthogonal cells: a deviation of 0.01 degree is within the CRYST1 precision
    [90.0, 90.01, 90.0], [90.0, 90.0, 89.98], [90.02, 90.0, 90.0], [89.99, 90.05, 90.01],
]

# ids
ATOM_ID_DEC_MIN, ATOM_ID_DEC_MAX = -9999, 99999
RES_ID_DEC_MIN, RES_ID_DEC_MAX = -999, 9999


def h36_max(length):
    return 10**length - 1 + 2 * 26 * 36 ** (length - 1)


def _around(points, lo, hi, r=2):
    out = set()
    for p in points:
        for d in range(-r, r + 1):
            if lo <= p + d <= hi:
                out.add(p + d)
    return sorted(out)


ATOM_ID_DEC_POOL = _around([-9999, -1000, -999, -100, -10, -1, 0, 1, 9, 10, 99, 100, 999, 1000, 9999, 10000, 99999], -9999, 99999)
RES_ID_DEC_POOL = _around([-999, -100, -99, -10, -1, 0, 1, 9, 10, 99, 100, 999, 1000, 9999], -999, 9999)
ATOM_ID_DEC_WRAP = {-9999, -9998, 99999, 99998}
RES_ID_DEC_WRAP = {-999, -998, 9999, 9998}
ATOM_ID_H36_POOL = _around(
    [0, 99999, 100000, 100000 + 36**4, 100000 + 26 * 36**4 - 1, 100000 + 26 * 36**4, h36_max(5)], 0, h36_max(5)
)
RES_ID_H36_POOL = _around(
    [0, 9999, 10000, 10000 + 36**3, 10000 + 26 * 36**3 - 1, 10000 + 26 * 36**3, h36_max(4)], 0, h36_max(4)
)

ELEMENTS_1 = ["C", "N", "O", "H", "S", "P", "K", "D"]
ELEMENTS_2 = ["FE", "ZN", "CL", "CA", "NA", "MG", "SE", "BR"]
NAME_CHARS = "ABCDGHNOPSXZ0123456789'*"
CHAIN_CHARS = "ABCXYZabz0129"
RESNAME_CHARS = "ABCDGLNSUXZ0123"


# --------------------------------------------------------------------------
# column grammar (syntactic, independent of the case)
# --------------------------------------------------------------------------
_RE_INT5 = re.compile(r" *-?\d+\Z")
# hybrid-36 columns: a (possibly negative, as the reference implementation writes them) decimal number
# or a base-36 word of the full width
_RE_H36_5 = re.compile(r"(?: *-?\d+|[A-Z][A-Z0-9]{4}|[a-z][a-z0-9]{4})\Z")
_RE_INT4 = _RE_INT5
_RE_H36_4 = re.compile(r"(?: *-?\d+|[A-Z][A-Z0-9]{3}|[a-z][a-z0-9]{3})\Z")
_RE_NAME = re.compile(r" ?[^ ]{1,4} *\Z")
_RE_RESNAME = re.compile(r" *[^ ]{1,3}\Z")
_RE_F3 = re.compile(r" *-?\d+\.\d{3}\Z")
_RE_F2 = re.compile(r" *-?\d+\.\d{2}\Z")
_RE_ELEMENT = re.compile(r"(?: [^ ]|[^ ]{2})\Z")
_RE_CHARGE = re.compile(r"(?:  |\d[+-])\Z")
_RE_UINT = re.compile(r" *\d+\Z")
_RE_UF3 = re.compile(r" *\d+\.\d{3}\Z")
_RE_UF2 = re.compile(r" *\d+\.\d{2}\Z")

ATOM_FIELDS = [
    # name, start, stop (0-based, exclusive), test
    ("record", 0, 6, lambda s, h: s in ("ATOM  ", "HETATM")),
    ("serial", 6, 11, lambda s, h: bool((_RE_H36_5 if h else _RE_INT5).match(s))),
    ("blank12", 11, 12, lambda s, h: s == " "),
    ("name", 12, 16, lambda s, h: bool(_RE_NAME.match(s))),
    ("altloc", 16, 17, lambda s, h: s == " "),
    ("resName", 17, 20, lambda s, h: bool(_RE_RESNAME.match(s))),
    ("blank21", 20, 21, lambda s, h: s == " "),
    ("chainID", 21, 22, lambda s, h: len(s) == 1),
    ("resSeq", 22, 26, lambda s, h: bool((_RE_H36_4 if h else _RE_INT4).match(s))),
    ("iCode", 26, 27, lambda s, h: len(s) == 1),
    ("blank28_30", 27, 30, lambda s, h: s == "   "),
    ("x", 30, 38, lambda s, h: bool(_RE_F3.match(s))),
    ("y", 38, 46, lambda s, h: bool(_RE_F3.match(s))),
    ("z", 46, 54, lambda s, h: bool(_RE_F3.match(s))),
    ("occupancy", 54, 60, lambda s, h: bool(_RE_F2.match(s))),
    ("tempFactor", 60, 66, lambda s, h: bool(_RE_F2.match(s))),
    ("blank67_76", 66, 76, lambda s, h: s == " " * 10),
    ("element", 76, 78, lambda s, h: bool(_RE_ELEMENT.match(s))),
    ("charge", 78, 80, lambda s, h: bool(_RE_CHARGE.match(s))),
]

CRYST1_FIELDS = [
    ("record", 0, 6, lambda s: s == "CRYST1"),
    ("a", 6, 15, lambda s: bool(_RE_UF3.match(s))),
    ("b", 15, 24, lambda s: bool(_RE_UF3.match(s))),
    ("c", 24, 33, lambda s: bool(_RE_UF3.match(s))),
    ("alpha", 33, 40, lambda s: bool(_RE_UF2.match(s))),
    ("beta", 40, 47, lambda s: bool(_RE_UF2.match(s))),
    ("gamma", 47, 54, lambda s: bool(_RE_UF2.match(s))),
    ("blank55", 54, 55, lambda s: s == " "),
    # space group and Z value are not part of the property: only "nothing that cannot be there"
    ("sGroup", 55, 66, lambda s: len(s) == 11),
    ("z", 66, 70, lambda s: s.strip() == "" or bool(_RE_UINT.match(s.rstrip()))),
]


# Record names of the PDB format (v3.3) besides the ones whose columns are checked here.  A writer may
# emit any of them (END, TER, REMARK ... are not forbidden by the property); their content is not judged.
OTHER_PDB_RECORDS = (
    "HEADER", "OBSLTE", "TITLE", "SPLIT", "SPLT", "CAVEAT", "COMPND", "SOURCE", "KEYWDS", "EXPDTA", "NUMMDL",
    "MDLTYP", "AUTHOR", "REVDAT", "SPRSDE", "JRNL", "REMARK", "DBREF", "DBREF1", "DBREF2", "SEQADV", "SEQRES",
    "MODRES", "HET", "HETNAM", "HETSYN", "FORMUL", "HELIX", "SHEET", "SSBOND", "LINK", "CISPEP", "SITE",
    "ORIGX1", "ORIGX2", "ORIGX3", "SCALE1", "SCALE2", "SCALE3", "MTRIX1", "MTRIX2", "MTRIX3", "ANISOU", "TER",
    "MASTER", "END",
)


def grammar_errors(lines, hybrid36, other_records=None):
    """List of (line number, field, text) for every record that is not in its fixed columns.
    other_records: optional list that receives the names of further (unjudged) PDB records."""
    errs = []
    for i, line in enumerate(lines):
        if line.startswith(("ATOM", "HETATM")):
            # trailing blanks may be stripped: the fields are judged on the line padded to 80 columns
            if len(line) > 80:
                errs.append((i, "length", f"{len(line)} characters: {line!r}"))
            line = line.ljust(80)
            for name, a, b, test in ATOM_FIELDS:
                if not test(line[a:b], hybrid36):
                    errs.append((i, name, f"{line[a:b]!r} in {line!r}"))
        elif line.startswith("CRYST1"):
            if not 54 <= len(line.rstrip()) <= 80 or line[70:].strip() != "":
                errs.append((i, "cryst1_length", f"{len(line)} characters: {line!r}"))
            line = line.ljust(80)
            for name, a, b, test in CRYST1_FIELDS:
                if not test(line[a:b]):
                    errs.append((i, "cryst1_" + name, f"{line[a:b]!r} in {line!r}"))
        elif line.startswith("MODEL"):
            if not re.match(r"MODEL {5}[ \d]{3}\d *\Z", line):
                errs.append((i, "model", repr(line)))
        elif line.startswith("CONECT"):
            # serial of the atom in 7-11, up to four bonded atoms in 12-31, nothing behind
            fields = [line[k : k + 5] for k in range(6, 31, 5)]
            used = [f for f in fields if f.strip()]
            ok = (
                len(used) >= 2
                and fields[: len(used)] == used
                and all(len(f) == 5 and (_RE_H36_5 if hybrid36 else _RE_INT5).match(f) for f in used)
                and line[31:].strip() == ""
            )
            if not ok:
                errs.append((i, "conect", repr(line)))
        elif line.startswith("ENDMDL"):
            pass
        elif line[:6].rstrip() in OTHER_PDB_RECORDS:
            if other_records is not None:
                other_records.append(line[:6].rstrip())
        else:
            # not a record of the PDB format at all (e.g. an atom record shifted by a column)
            errs.append((i, "unknown_record", repr(line)))
    return errs


# --------------------------------------------------------------------------
# plain data -> biotite
# --------------------------------------------------------------------------
ANNOT_ORDER = ["chain", "res_id", "ins", "res_name", "hetero", "name", "element", "atom_id", "b", "occ", "charge"]


def cell_vectors(cell):
    """Own float64 transcription of the unit cell -> lattice vectors convention
    (a along x, b in the xy plane)."""
    a, b, c, al, be, ga = cell
    if [al, be, ga] == [90.0, 90.0, 90.0]:
        return np.diag([a, b, c]).astype(np.float64)
    al, be, ga = np.deg2rad([al, be, ga])
    cx = c * np.cos(be)
    cy = c * (np.cos(al) - np.cos(be) * np.cos(ga)) / np.sin(ga)
    cz = np.sqrt(c * c - cx * cx - cy * cy)
    return np.array([[a, 0, 0], [b * np.cos(ga), b * np.sin(ga), 0], [cx, cy, cz]], dtype=np.float64)


def cell_params(box):
    """float64 unit cell parameters (lengths, angles in degrees) of a 3x3 box."""
    box = np.asarray(box, dtype=np.float64)
    with np.errstate(all="ignore"):
        a, b, c = (np.sqrt((v * v).sum()) for v in box)
        al = np.degrees(np.arccos(np.dot(box[1], box[2]) / (b * c)))
        be = np.degrees(np.arccos(np.dot(box[0], box[2]) / (a * c)))
        ga = np.degrees(np.arccos(np.dot(box[0], box[1]) / (a * b)))
    return [a, b, c], [al, be, ga]


def build_structure(case):
    import biotite.structure as struc

    atoms = case["atoms"]
    n = len(atoms)
    coords = np.array(case["coords"], dtype=np.float64).astype(np.float32).reshape(len(case["coords"]), n, 3)
    if coords.shape[0] == 1 and not case.get("as_stack", False):
        arr = struc.AtomArray(n)
        arr.coord = coords[0]
    else:
        arr = struc.AtomArrayStack(coords.shape[0], n)
        arr.coord = coords

    def strs(key):
        vals = [a[key] for a in atoms]
        width = max(1, max(len(v) for v in vals))
        return np.array(vals, dtype=f"U{width}")

    arr.chain_id = strs("chain")
    arr.res_id = np.array([a["res_id"] for a in atoms], dtype=np.int64)
    arr.ins_code = strs("ins")
    arr.res_name = strs("res_name")
    arr.hetero = np.array([bool(a["hetero"]) for a in atoms], dtype=bool)
    arr.atom_name = strs("name")
    arr.element = strs("element")
    fields = case["fields"]
    fdt = np.float32 if case.get("bf_dtype") == "f4" else np.float64
    if "atom_id" in fields:
        arr.set_annotation("atom_id", np.array([a["atom_id"] for a in atoms], dtype=np.int64))
    if "b_factor" in fields:
        arr.set_annotation("b_factor", np.array([a["b"] for a in atoms], dtype=fdt))
    if "occupancy" in fields:
        arr.set_annotation("occupancy", np.array([a["occ"] for a in atoms], dtype=fdt))
    if "charge" in fields:
        arr.set_annotation("charge", np.array([a["charge"] for a in atoms], dtype=np.int64))
    if case.get("cell") is not None:
        box = cell_vectors(case["cell"]).astype(np.float32)
        if isinstance(arr, struc.AtomArrayStack):
            arr.box = np.repeat(box[np.newaxis], arr.stack_depth(), axis=0)
        else:
            arr.box = box
    return arr


def _decoy_like(n_lines, first_is_cryst1):
    """A structure whose PDB text has `n_lines` lines but another layout (box line or not)."""
    import biotite.structure as struc

    n = n_lines if first_is_cryst1 else n_lines - 1
    if n < 1:
        return None
    decoy = struc.AtomArray(n)
    decoy.coord[:] = 1.0
    decoy.chain_id[:] = "Z"
    decoy.res_id[:] = 1
    decoy.res_name[:] = "DCY"
    decoy.atom_name[:] = "D"
    decoy.element[:] = "C"
    if not first_is_cryst1:
        decoy.box = np.eye(3, dtype=np.float32) * 10
    return decoy


def write_pdb(arr, hybrid36, via_convert, reuse_file=False):
    """-> (lines, warnings).  Exceptions propagate.

    reuse_file: the PDBFile object has held (and been read as) another structure with the same
    number of lines before - set_structure() must replace it completely."""
    import biotite.structure.io.pdb as pdb

    f = pdb.PDBFile()
    if reuse_file:
        probe = pdb.PDBFile()
        with warnings.catch_warnings():
            warnings.simplefilter("ignore")
            probe.set_structure(arr, hybrid36=hybrid36)
        first_is_cryst1 = len(probe.lines) > 0 and probe.lines[0].startswith("CRYST1")
        decoy = _decoy_like(len(probe.lines), first_is_cryst1)
        if decoy is not None:
            f.set_structure(decoy)
            # a writer that emits further records (END, TER ...): correct the atom count once so that the
            # decoy text has as many lines as the text of the structure under test
            surplus = len(f.lines) - len(probe.lines)
            if surplus != 0:
                decoy = _decoy_like(len(probe.lines) - surplus, first_is_cryst1)
                if decoy is not None:
                    f.set_structure(decoy)
        if decoy is not None:
            f.get_structure(model=1)
            f.get_structure(model=None)
            f.get_coord(model=None)
            f.get_b_factor(model=None)
            f.get_model_count()
    with warnings.catch_warnings(record=True) as w:
        warnings.simplefilter("always")
        if via_convert:
            pdb.set_structure(f, arr, hybrid36=hybrid36)
        else:
            f.set_structure(arr, hybrid36=hybrid36)
    return f, list(f.lines), [str(x.message) for x in w]


def reread(f):
    import biotite.structure.io.pdb as pdb

    buf = io.StringIO()
    f.write(buf)
    buf.seek(0)
    return pdb.PDBFile.read(buf)


# --------------------------------------------------------------------------
# round trip oracle
# --------------------------------------------------------------------------
def expected_ids(case, wrap):
    """Ids the file is expected to give back.  `wrap`: decimal wrapping applies
    (non hybrid-36 mode; biotite warns and wraps ids above the decimal maximum)."""
    atoms = case["atoms"]
    if "atom_id" in case["fields"]:
        aid = [a["atom_id"] for a in atoms]
    else:
        aid = list(range(1, len(atoms) + 1))
    rid = [a["res_id"] for a in atoms]
    if wrap:
        aid = [((i - 1) % 99999) + 1 if i > 0 else i for i in aid]
        rid = [((i - 1) % 9999) + 1 if i > 0 else i for i in rid]
    return aid, rid


def check_roundtrip(o, case, f, clause_prefix="", exp_ids=None):
    """Read the written file back in every supported way and compare with the case.
    exp_ids: (atom ids, residue ids) to expect instead of the ones of the case."""
    import biotite.structure as struc
    import biotite.structure.io.pdb as pdb

    P = clause_prefix
    atoms = case["atoms"]
    n = len(atoms)
    coords = np.array(case["coords"], dtype=np.float64).astype(np.float32).astype(np.float64)
    coords = coords.reshape(len(case["coords"]), n, 3)
    depth = coords.shape[0]
    hybrid = case["hybrid36"]
    extra = ["atom_id", "b_factor", "occupancy", "charge"]
    g = reread(f)
    o.check_eq(g.get_model_count(), depth, P + "models_reproduced", "get_model_count()")
    if case.get("via_convert"):
        stack = pdb.get_structure(g, model=None, extra_fields=extra)
    else:
        stack = g.get_structure(model=None, extra_fields=extra)
    if not o.check(isinstance(stack, struc.AtomArrayStack), P + "models_reproduced", "model=None must give a stack"):
        return
    if not o.check_eq(
        (stack.stack_depth(), stack.array_length()), (depth, n), P + "models_reproduced", "(depth, atoms)"
    ):
        return
    exp_aid, exp_rid = expected_ids(case, wrap=not hybrid) if exp_ids is None else exp_ids

    def cmp_annot(arr, what):
        o.check_eq(arr.chain_id.tolist(), [a["chain"] for a in atoms], P + "chain_reproduced", f"{what} chain_id")
        o.check_eq(arr.res_id.tolist(), exp_rid, P + "res_id_reproduced", f"{what} res_id")
        o.check_eq(arr.ins_code.tolist(), [a["ins"] for a in atoms], P + "ins_code_reproduced", f"{what} ins_code")
        o.check_eq(arr.res_name.tolist(), [a["res_name"] for a in atoms], P + "res_name_reproduced", f"{what} res_name")
        o.check_eq(arr.hetero.tolist(), [bool(a["hetero"]) for a in atoms], P + "hetero_reproduced", f"{what} hetero")
        o.check_eq(arr.atom_name.tolist(), [a["name"] for a in atoms], P + "atom_name_reproduced", f"{what} atom_name")
        o.check_eq(arr.element.tolist(), [a["element"] for a in atoms], P + "element_reproduced", f"{what} element")
        o.check_eq(arr.atom_id.tolist(), exp_aid, P + "atom_id_reproduced", f"{what} atom_id")
        if "charge" in case["fields"]:
            o.check_eq(arr.charge.tolist(), [a["charge"] for a in atoms], P + "charge_reproduced", f"{what} charge")
        for field, key, clause in (("b_factor", "b", "b_factor_reproduced"), ("occupancy", "occ", "occupancy_reproduced")):
            if field not in case["fields"]:
                continue
            want = np.array([a[key] for a in atoms], dtype=np.float64)
            if case.get("bf_dtype") == "f4":
                want = want.astype(np.float32).astype(np.float64)
            got = np.asarray(arr.get_annotation(field), dtype=np.float64)
            # half a unit of the last written decimal + the rounding of a reader that keeps float32
            tol = 0.005 + 4 * np.spacing(np.maximum(np.abs(want), 1.0).astype(np.float32)).astype(np.float64)
            bad = ~(np.abs(got - want) <= tol)
            o.check(not bad.any(), P + clause, lambda: f"{what} {field}: got {got.tolist()} want {want.tolist()}")

    def cmp_coord(got, want, what):
        got = np.asarray(got, dtype=np.float64)
        if not o.check_eq(got.shape, want.shape, P + "coord_reproduced", f"{what} coord shape"):
            return
        tol = 0.0005 + np.spacing(np.maximum(np.abs(want), np.abs(got)).astype(np.float32)).astype(np.float64)
        bad = ~(np.abs(got - want) <= tol)
        o.check(not bad.any(), P + "coord_reproduced", lambda: f"{what}: got {got[bad].tolist()} want {want[bad].tolist()}")

    cmp_annot(stack, "stack")
    cmp_coord(stack.coord, coords, "stack")
    cmp_coord(g.get_coord(model=None), coords, "get_coord()")
    # the dedicated B-factor getter reads the same columns as get_structure(extra_fields=["b_factor"])
    # (both parse the same text; the float type of either is not documented, hence a tolerance far below
    # the written precision instead of bit equality)
    def same_bf(got, what):
        got = np.asarray(got, dtype=np.float64)
        want = np.asarray(stack.b_factor, dtype=np.float64)
        if o.check_eq(got.shape, want.shape, P + "b_factor_reproduced", f"{what} shape"):
            o.check(
                bool(np.allclose(got, want, atol=1e-4, rtol=1e-6)),
                P + "b_factor_reproduced",
                lambda: f"{what}: {got.tolist()} but the b_factor annotation is {want.tolist()}",
            )

    bf_all = np.asarray(g.get_b_factor(model=None))
    if o.check_eq(bf_all.shape, (depth, n), P + "b_factor_reproduced", "get_b_factor() shape"):
        for k in range(depth):
            same_bf(bf_all[k], f"get_b_factor() model {k + 1}")
    mb = case.get("read_model", 0) % depth
    same_bf(g.get_b_factor(model=mb - depth), f"get_b_factor(model={mb - depth})")
    # single models, also counted from the end
    m = case.get("read_model", 0) % depth
    for model in (m + 1, m - depth):
        one = g.get_structure(model=model, extra_fields=extra)
        if o.check(isinstance(one, struc.AtomArray), P + "models_reproduced", f"model={model} must give an array"):
            if o.check_eq(one.array_length(), n, P + "models_reproduced", f"model={model} length"):
                cmp_annot(one, f"model={model}")
                cmp_coord(one.coord, coords[m], f"model={model}")
                cmp_coord(g.get_coord(model=model), coords[m], f"get_coord({model})")
    # every optional field is read the same whether it is requested alone or together with the others
    ref = g.get_structure(model=m + 1, extra_fields=extra)
    for subset in (["atom_id"], ["b_factor"], ["occupancy"], ["charge"], ["occupancy", "charge"], ["charge", "b_factor"]):
        part = g.get_structure(model=m + 1, extra_fields=list(subset))
        for field in subset:
            clause = {"atom_id": "atom_id_reproduced", "b_factor": "b_factor_reproduced", "occupancy": "occupancy_reproduced", "charge": "charge_reproduced"}[field]
            o.check_array_eq(
                np.asarray(part.get_annotation(field)), np.asarray(ref.get_annotation(field)), P + clause, f"{field} with extra_fields={subset}"
            )
    # box
    if case.get("cell") is not None:
        want_len, want_ang = cell_params(cell_vectors(case["cell"]).astype(np.float32))
        if o.check(stack.box is not None, P + "box_reproduced", "box missing after reading"):
            o.check_eq(stack.box.shape, (depth, 3, 3), P + "box_reproduced", "box shape")
            for bx in stack.box:
                got_len, got_ang = cell_params(bx)
                for gl, wl in zip(got_len, want_len):
                    o.check(abs(gl - wl) <= 0.0005 + 8 * ulp32(wl), P + "box_reproduced", f"cell length {gl!r} vs {wl!r}")
                for ga, wa in zip(got_ang, want_ang):
                    o.check(abs(ga - wa) <= 0.005 + 2e-4, P + "box_reproduced", f"cell angle {ga!r} vs {wa!r}")
    else:
        o.check(stack.box is None, P + "box_reproduced", "a box appeared")


def check_grammar(o, lines, hybrid36, clause="fixed_columns"):
    others = []
    errs = grammar_errors(lines, hybrid36, others)
    for name in sorted(set(others)):
        o.label("other_record:" + name)
    conect = [e for e in errs if e[1] == "conect"]
    other = [e for e in errs if e[1] != "conect"]
    if other:
        o.fail(clause, "; ".join(f"line {i} {name}: {txt}" for i, name, txt in other[:4]))
    if conect:
        o.fail("conect_columns", "; ".join(f"line {i}: {txt}" for i, name, txt in conect[:4]))
    return not errs


def check_written_fields(o, case, lines):
    """Semantic column check: the text in each column range is the value that was given
    (atom name alignment rule, justification)."""
    atoms = case["atoms"]
    atom_lines = [l for l in lines if l.startswith(("ATOM", "HETATM"))]
    if not o.check_eq(len(atom_lines), len(atoms) * len(case["coords"]), "fixed_columns", "number of ATOM/HETATM records"):
        return
    for k, line in enumerate(atom_lines):
        line = line.ljust(80)
        a = atoms[k % len(atoms)]
        name = a["name"]
        if name.upper().startswith(a["element"].upper()):
            # the format fixes the alignment through the element symbol inside the name: the symbol is
            # right justified in columns 13-14 (4 character names start in column 13)
            want = (" " + name if len(a["element"]) == 1 and len(name) < 4 else name).ljust(4)
            o.check_eq(line[12:16], want, "atom_name_alignment", f"name columns of {line!r}")
        else:
            # the name does not start with its element symbol: either alignment is conformant
            o.check_eq(line[12:16].strip(), name, "atom_name_alignment", f"name columns of {line!r}")
        o.check_eq(line[0:6], "HETATM" if a["hetero"] else "ATOM  ", "fixed_columns", "record name")
        o.check_eq(line[17:20], a["res_name"].rjust(3), "fixed_columns", "resName columns")
        o.check_eq(line[21:22], a["chain"].ljust(1), "fixed_columns", "chainID column")
        o.check_eq(line[26:27], a["ins"].ljust(1), "fixed_columns", "iCode column")
        o.check_eq(line[76:78], a["element"].rjust(2), "fixed_columns", "element columns")


# --------------------------------------------------------------------------
# strategies: structures
# --------------------------------------------------------------------------
def st_coord_in():
    return st.one_of(
        st.sampled_from(COORD_EDGE_IN),
        st.sampled_from(COORD_OTHER_IN),
        st.floats(min_value=-999.0, max_value=9999.0, width=32, allow_nan=False),
        st.floats(min_value=-50.0, max_value=50.0, width=32, allow_nan=False),
    )


BF_EDGE_IN_F4 = [v for v in BF_EDGE_IN if f32(v) == v]
BF_OTHER_IN_F4 = [v for v in BF_OTHER_IN if f32(v) == v]


def st_bf_in(dtype="f8"):
    if dtype == "f4":
        return st.one_of(
            st.sampled_from(BF_EDGE_IN_F4),
            st.sampled_from(BF_OTHER_IN_F4),
            st.floats(min_value=-99.0, max_value=999.0, width=32, allow_nan=False),
            st.floats(min_value=0.0, max_value=1.0, width=32, allow_nan=False),
        )
    return st.one_of(
        st.sampled_from(BF_EDGE_IN),
        st.sampled_from(BF_OTHER_IN),
        st.floats(min_value=-99.0, max_value=999.0, width=32, allow_nan=False),
        st.floats(min_value=0.0, max_value=1.0, allow_nan=False),
    )


def st_name():
    return st.text(NAME_CHARS, min_size=1, max_size=4)


def st_atom(hybrid36, bf_dtype="f8"):
    if hybrid36:
        aid = st.one_of(st.sampled_from(ATOM_ID_H36_POOL), st.integers(0, h36_max(5)), st.integers(99990, 100100))
        rid = st.one_of(st.sampled_from(RES_ID_H36_POOL), st.integers(0, h36_max(4)), st.integers(9990, 10100))
    else:
        aid = st.one_of(st.sampled_from(ATOM_ID_DEC_POOL), st.integers(ATOM_ID_DEC_MIN, ATOM_ID_DEC_MAX))
        rid = st.one_of(st.sampled_from(RES_ID_DEC_POOL), st.integers(RES_ID_DEC_MIN, RES_ID_DEC_MAX))
    def finish(a):
        # half of the names start with their element symbol (as real atom names do): only for these the
        # format fixes the column in which the name starts
        if a.pop("name_from_element"):
            a["name"] = (a["element"] + a["name"][1:])[:4] if len(a["element"]) == 1 else (a["element"] + a["name"][2:])[:4]
        return a

    return st.fixed_dictionaries(
        {
            "chain": st.one_of(st.sampled_from(CHAIN_CHARS), st.sampled_from(CHAIN_CHARS), st.sampled_from(CHAIN_CHARS), st.just("")),
            "res_id": rid,
            "ins": st.one_of(st.just(""), st.just(""), st.sampled_from("ABZa1")),
            "res_name": st.text(RESNAME_CHARS, min_size=1, max_size=3),
            "hetero": st.booleans(),
            "name": st_name(),
            "name_from_element": st.booleans(),
            "element": st.one_of(st.sampled_from(ELEMENTS_1), st.sampled_from(ELEMENTS_2)),
            "atom_id": aid,
            "b": st_bf_in(bf_dtype),
            "occ": st_bf_in(bf_dtype),
            "charge": st.integers(-9, 9),
        }
    ).map(finish)


def st_cell():
    def ortho():
        length = st.one_of(st.sampled_from(BOX_EDGE_IN), st.sampled_from(BOX_OTHER), st.floats(0.5, 500.0, width=32))
        return st.tuples(length, length, length).map(lambda t: [f32(t[0]), f32(t[1]), f32(t[2]), 90.0, 90.0, 90.0])

    def tric():
        length = st.one_of(st.sampled_from(BOX_OTHER), st.floats(0.5, 50000.0, width=32))
        return st.tuples(length, length, length, st.sampled_from(CELL_ANGLES)).map(
            lambda t: [f32(t[0]), f32(t[1]), f32(t[2])] + list(t[3])
        )

    return st.one_of(st.none(), ortho(), tric())


def st_structure(tier, hybrid36):
    max_atoms = 6 if tier == "quick" else 12
    # strategies are built once (building them inside the composite dominates the run time)
    atom_st = {dt: st_atom(hybrid36, dt) for dt in ("f8", "f4")}
    coord_st = st_coord_in()
    xyz_st = st.lists(coord_st, min_size=3, max_size=3)
    fields_st = st.lists(st.sampled_from(["atom_id", "b_factor", "occupancy", "charge"]), unique=True).map(sorted)
    cell_st = st_cell()
    head_st = st.tuples(
        st.integers(1, max_atoms),
        st.sampled_from([1, 1, 2, 3]),
        st.sampled_from(["f8", "f8", "f4"]),
        fields_st,
        st.integers(0, 3),
        st.booleans(),
        st.booleans(),
        cell_st,
        st.integers(0, 5),
        st.booleans(),
    )

    @st.composite
    def gen(draw):
        n, depth, bf_dtype, fields, force_id, via_convert, as_stack, cell, read_model, reuse = draw(head_st)
        atoms = draw(st.lists(atom_st[bf_dtype], min_size=n, max_size=n))
        coords = draw(
            st.lists(st.lists(xyz_st, min_size=n, max_size=n), min_size=depth, max_size=depth)
        )
        if hybrid36 and force_id > 0 and "atom_id" not in fields:
            fields = sorted(fields + ["atom_id"])
        return {
            "hybrid36": hybrid36,
            "via_convert": via_convert,
            "as_stack": as_stack,
            "fields": fields,
            "bf_dtype": bf_dtype,
            "atoms": atoms,
            "coords": coords,
            "cell": cell,
            "read_model": read_model,
            "reuse": reuse,
        }

    return gen()


# --------------------------------------------------------------------------
# (a)/(b) in-limit round trip
# --------------------------------------------------------------------------
def in_domain(case):
    """Exact membership test of the stated domain (the generator constructs members;
    this only guards against a generator bug)."""
    hybrid = case["hybrid36"]
    for a in case["atoms"]:
        if "atom_id" in case["fields"]:
            lo, hi = (0, h36_max(5)) if hybrid else (ATOM_ID_DEC_MIN, ATOM_ID_DEC_MAX)
            if not lo <= a["atom_id"] <= hi:
                return False
        lo, hi = (0, h36_max(4)) if hybrid else (RES_ID_DEC_MIN, RES_ID_DEC_MAX)
        if not lo <= a["res_id"] <= hi:
            return False
        for key, field in (("b", "b_factor"), ("occ", "occupancy")):
            if field in case["fields"]:
                v = f32(a[key]) if case.get("bf_dtype") == "f4" else a[key]
                if not fits_fixed(v, 2, 6):
                    return False
        if "charge" in case["fields"] and not -9 <= a["charge"] <= 9:
            return False
    for model in case["coords"]:
        for xyz in model:
            if not all(fits_fixed(f32(v), 3, 8) for v in xyz):
                return False
    if case.get("cell") is not None:
        if not all(fits_fixed(f32(v), 3, 9) for v in case["cell"][:3]):
            return False
    return True


def label_case(o, case):
    hybrid = case["hybrid36"]
    fields = case["fields"]
    nontrivial = False
    flat = [f32(v) for model in case["coords"] for xyz in model for v in xyz]
    if any(v in COORD_NEAR for v in flat):
        o.label("coord_near_limit")
        nontrivial = True
    if any(v < 0 and fits_fixed(v, 3, 8) and not fits_fixed(v, 3, 7) for v in flat):
        o.label("coord_8_chars")
    for key, field in (("b", "b_factor"), ("occ", "occupancy")):
        if field in fields:
            vals = [f32(a[key]) if case.get("bf_dtype") == "f4" else a[key] for a in case["atoms"]]
            if any(v in BF_NEAR for v in vals):
                o.label(f"{field}_near_limit")
                nontrivial = True
    if "atom_id" in fields:
        ids = [a["atom_id"] for a in case["atoms"]]
        if hybrid and any(i > 99999 for i in ids):
            o.label("atom_id_beyond_decimal")
            nontrivial = True
        if not hybrid and any(i in ATOM_ID_DEC_WRAP for i in ids):
            o.label("atom_id_at_limit")
            nontrivial = True
        if any(i < 0 for i in ids):
            o.label("atom_id_negative")
    rids = [a["res_id"] for a in case["atoms"]]
    if hybrid and any(i > 9999 for i in rids):
        o.label("res_id_beyond_decimal")
        nontrivial = True
    if not hybrid and any(i in RES_ID_DEC_WRAP for i in rids):
        o.label("res_id_at_limit")
        nontrivial = True
    if any(i < 0 for i in rids):
        o.label("res_id_negative")
    if "charge" in fields:
        o.label("charge")
        if any(abs(a["charge"]) == 9 for a in case["atoms"]):
            o.label("charge_9")
    if case.get("cell") is not None:
        o.label("box")
        if case["cell"][3:] != [90.0, 90.0, 90.0]:
            o.label("box_triclinic")
            if any(0 < abs(x - 90.0) <= 0.05 for x in case["cell"][3:]):
                o.label("box_nearly_orthogonal")
        if max(case["cell"][:3]) > 1000 * min(case["cell"][:3]):
            o.label("box_aspect>1000")
        if any(f32(v) in BOX_EDGE_IN for v in case["cell"][:3]):
            o.label("box_near_limit")
            nontrivial = True
    o.label(f"models={len(case['coords'])}")
    if any(a["chain"] == "" for a in case["atoms"]):
        o.label("empty_chain")
    if any(a["ins"] != "" for a in case["atoms"]):
        o.label("ins_code")
    if any(len(a["element"]) == 2 for a in case["atoms"]):
        o.label("element_2")
    if any(len(a["name"]) == 4 for a in case["atoms"]):
        o.label("name_4")
    if any(len(a["name"]) < 4 and len(a["element"]) == 1 for a in case["atoms"]):
        o.label("name_shifted_right")
    if any(a["name"].upper().startswith(a["element"].upper()) for a in case["atoms"]):
        o.label("name_starts_with_element")
        if any(a["name"].upper().startswith(a["element"].upper()) and len(a["element"]) == 2 for a in case["atoms"]):
            o.label("name_starts_with_2_letter_element")
    if any(not a["name"].upper().startswith(a["element"].upper()) for a in case["atoms"]):
        o.label("name_without_element_prefix")
    if case.get("as_stack") and len(case["coords"]) == 1:
        o.label("depth_1_stack")
    o.label("via_convert" if case.get("via_convert") else "via_method")
    return nontrivial


def run_roundtrip(case):
    o = Outcome()
    if not in_domain(case):
        o.invalid = True
        o.label("generator_left_domain")
        return o
    nontrivial = label_case(o, case)
    arr = build_structure(case)
    # (cases stored before "reuse" was drawn on its own: even atom counts)
    reuse = case["reuse"] if "reuse" in case else len(case["atoms"]) % 2 == 0
    if reuse:
        o.label("file_object_reused")
        if len(case["atoms"]) == 1:
            o.label("file_object_reused_1_atom")
    f, lines, warns = write_pdb(arr, case["hybrid36"], case.get("via_convert", False), reuse_file=reuse)
    check_grammar(o, lines, case["hybrid36"])
    check_written_fields(o, case, lines)
    # the live object must give what a fresh parse of its own text gives
    live = f.get_structure(model=None, extra_fields=["atom_id", "b_factor", "occupancy", "charge"])
    fresh = reread(f).get_structure(model=None, extra_fields=["atom_id", "b_factor", "occupancy", "charge"])
    o.check(
        live.coord.shape == fresh.coord.shape and live == fresh and np.array_equal(live.coord, fresh.coord, equal_nan=True),
        "live_object_equals_reparsed_text",
        lambda: f"live object: shape {live.coord.shape}, re-parsed text: shape {fresh.coord.shape}",
    )
    o.check_eq(f.get_model_count(), reread(f).get_model_count(), "live_object_equals_reparsed_text", "model count")
    if case.get("cell") is not None:
        o.check(sum(l.startswith("CRYST1") for l in lines) == 1, "box_reproduced", "exactly one CRYST1 record expected")
    check_roundtrip(o, case, f)
    again = build_structure(case)
    o.check(
        arr == again and np.array_equal(np.asarray(arr.coord), np.asarray(again.coord), equal_nan=True)
        and all(np.array_equal(arr.get_annotation(k), again.get_annotation(k)) for k in again.get_annotation_categories()),
        "writing_does_not_modify_arguments",
        "the structure handed to set_structure() changed",
    )
    o.mark_nontrivial(nontrivial)
    return o


# --------------------------------------------------------------------------
# (c) over-limit input
# --------------------------------------------------------------------------
OVER_KINDS_DEC = [
    "coord", "coord_nonfinite", "b_factor", "b_factor_nonfinite", "occupancy", "occupancy_nonfinite", "charge",
    "atom_id_wrap", "atom_id_neg", "res_id_wrap", "res_id_neg",
    "chain_len", "res_name_len", "atom_name_len", "element_len", "ins_code_len", "box_len", "box_nonfinite",
]
# hybrid-36 mode: every kind of the decimal mode except the four decimal id kinds, plus its own id kinds
OVER_KINDS_H36 = [k for k in OVER_KINDS_DEC if k not in ("atom_id_wrap", "atom_id_neg", "res_id_wrap", "res_id_neg")] + [
    "atom_id_h36_max", "atom_id_h36_neg", "res_id_h36_max", "res_id_h36_neg",
]
NONFINITE = [float("nan"), float("inf"), float("-inf")]


def st_over_value(kind):
    if kind == "coord":
        return st.one_of(st.sampled_from(COORD_EDGE_OUT), st.sampled_from(COORD_EDGE_OUT), st.sampled_from(COORD_FAR_OUT))
    if kind in ("b_factor", "occupancy"):
        return st.one_of(st.sampled_from(BF_EDGE_OUT), st.sampled_from(BF_EDGE_OUT), st.sampled_from(BF_FAR_OUT))
    if kind.endswith("_nonfinite"):
        return st.sampled_from(NONFINITE)
    if kind == "charge":
        return st.sampled_from([10, -10, 11, -11, 99, -99, 100, -128])
    if kind == "atom_id_wrap":
        return st.one_of(st.sampled_from([100000, 100001, 100002, 199998, 199999, 1000000]), st.integers(100000, 400000))
    if kind == "atom_id_neg":
        return st.sampled_from([-10000, -10001, -10002, -99999, -100000])
    if kind == "res_id_wrap":
        return st.one_of(st.sampled_from([10000, 10001, 10002, 19998, 19999, 100000]), st.integers(10000, 40000))
    if kind == "res_id_neg":
        return st.sampled_from([-1000, -1001, -1002, -9999, -10000])
    if kind == "atom_id_h36_max":
        return st.sampled_from([h36_max(5) + 1, h36_max(5) + 2, h36_max(5) + 3, 10**8, 2 * 10**9, 2**31, 2**31 + 5, 2**32 + 57, 2**32 + 100001])
    if kind == "res_id_h36_max":
        return st.sampled_from([h36_max(4) + 1, h36_max(4) + 2, h36_max(4) + 3, 10**7, 2 * 10**9, 2**31, 2**31 + 5, 2**32 + 57, 2**32 + 10001])
    if kind in ("atom_id_h36_neg", "res_id_h36_neg"):
        return st.sampled_from([-1, -2, -9, -10, -999, -1000])
    if kind == "chain_len":
        return st.sampled_from(["AB", "A1", "ABC", "ABCD"])
    if kind == "res_name_len":
        return st.sampled_from(["ABCD", "ALAN", "ABCDE"])
    if kind == "atom_name_len":
        return st.sampled_from(["ABCDE", "HD111", "ABCDEF"])
    if kind == "element_len":
        return st.sampled_from(["CLX", "ABC", "UUO", "ABCD"])
    if kind == "ins_code_len":
        return st.sampled_from(["AB", "A1", "ABC"])
    if kind == "box_len":
        return st.one_of(st.sampled_from(BOX_EDGE_OUT), st.sampled_from(BOX_FAR_OUT))
    if kind == "box_nonfinite":
        return st.sampled_from(NONFINITE[:2])
    raise AssertionError(kind)


def st_overlimit(tier):
    struct_st = {h: st_structure("quick", h) for h in (False, True)}
    value_st = {k: st_over_value(k) for k in set(OVER_KINDS_DEC) | set(OVER_KINDS_H36)}
    modes = [(False, k) for k in OVER_KINDS_DEC] + [(True, k) for k in OVER_KINDS_H36]
    head_st = st.tuples(st.integers(0, len(modes) - 1), st.integers(0, 99), st.integers(0, 9), st.integers(0, 2))

    @st.composite
    def gen(draw):
        # the kind is drawn first: one uniform integer decides the class of the case
        k, atom, model, axis = draw(head_st)
        hybrid, kind = modes[k]
        value = draw(value_st[kind])
        case = draw(struct_st[hybrid])
        case["inject"] = {"kind": kind, "value": value, "atom": atom, "model": model, "axis": axis}
        return case

    return gen()


def _beyond_column_as_float32(value):
    return abs(value) < 1e30 and not fits_fixed(f32(value), 2, 6)


def apply_injection(case):
    """-> (case with the over-limit value written in, kind of accepted non-error outcome)."""
    inj = case["inject"]
    kind, value = inj["kind"], inj["value"]
    case = {k: v for k, v in case.items()}
    case["atoms"] = [dict(a) for a in case["atoms"]]
    case["coords"] = [[list(xyz) for xyz in model] for model in case["coords"]]
    case["fields"] = list(case["fields"])
    i = inj["atom"] % len(case["atoms"])
    atom = case["atoms"][i]

    def need(field):
        if field not in case["fields"]:
            case["fields"] = sorted(case["fields"] + [field])

    if kind in ("coord", "coord_nonfinite"):
        case["coords"][inj["model"] % len(case["coords"])][i][inj["axis"]] = value
    elif kind in ("b_factor", "b_factor_nonfinite"):
        need("b_factor")
        atom["b"] = value
        if kind == "b_factor" and not _beyond_column_as_float32(value):
            # (a float32 annotation is kept where the value is beyond the column as float32 as well)
            case["bf_dtype"] = "f8"
    elif kind in ("occupancy", "occupancy_nonfinite"):
        need("occupancy")
        atom["occ"] = value
        if kind == "occupancy" and not _beyond_column_as_float32(value):
            case["bf_dtype"] = "f8"
    elif kind == "charge":
        need("charge")
        atom["charge"] = value
    elif kind.startswith("atom_id"):
        need("atom_id")
        atom["atom_id"] = value
    elif kind.startswith("res_id"):
        atom["res_id"] = value
    elif kind == "chain_len":
        atom["chain"] = value
    elif kind == "res_name_len":
        atom["res_name"] = value
    elif kind == "atom_name_len":
        atom["name"] = value
    elif kind == "element_len":
        atom["element"] = value
    elif kind == "ins_code_len":
        atom["ins"] = value
    elif kind in ("box_len", "box_nonfinite"):
        cell = list(case["cell"]) if case.get("cell") is not None else [10.0, 20.0, 30.0, 90.0, 90.0, 90.0]
        cell[3:] = [90.0, 90.0, 90.0]
        cell[inj["axis"]] = value
        case["cell"] = cell
    else:
        raise AssertionError(kind)
    return case


def wrapped_ids_as_read(o, case, f):
    """Expected ids of a decimal mode file that was given ids above the column maximum: the given id
    where it fits, biotite's modulo rule where the file agrees with it, otherwise the id found in the
    first model provided it is a number of the column range (check_roundtrip then demands this id from
    every other way of reading)."""
    want_aid, want_rid = expected_ids(case, wrap=False)
    rule_aid, rule_rid = expected_ids(case, wrap=True)
    one = reread(f).get_structure(model=1, extra_fields=["atom_id"])
    if one.array_length() != len(want_aid):
        return rule_aid, rule_rid
    out = []
    other = False
    for want, rule, got, lo, hi in (
        (want_aid, rule_aid, one.atom_id.tolist(), ATOM_ID_DEC_MIN, ATOM_ID_DEC_MAX),
        (want_rid, rule_rid, one.res_id.tolist(), RES_ID_DEC_MIN, RES_ID_DEC_MAX),
    ):
        exp = []
        for w, r, g in zip(want, rule, got):
            if lo <= w <= hi:
                exp.append(w)
            elif g == r or not lo <= g <= hi:
                exp.append(r)
            else:
                exp.append(int(g))
                other = True
        out.append(exp)
    o.label("wrapped:other_mapping" if other else "wrapped:modulo_rule")
    return out[0], out[1]


def run_overlimit(case):
    o = Outcome()
    base = {k: v for k, v in case.items() if k != "inject"}
    if not in_domain(base):
        o.invalid = True
        o.label("generator_left_domain")
        return o
    kind = case["inject"]["kind"]
    bad = apply_injection(case)
    if in_domain(bad) and kind not in ("chain_len", "res_name_len", "atom_name_len", "element_len", "ins_code_len", "box_nonfinite"):
        o.invalid = True
        o.label("injection_inside_domain")
        return o
    o.label(kind)
    if kind in ("b_factor", "occupancy") and bad.get("bf_dtype") == "f4":
        o.label(kind + "_float32_annotation")
    arr = build_structure(bad)
    try:
        f, lines, warns = write_pdb(arr, bad["hybrid36"], bad.get("via_convert", False))
    except Exception as e:  # noqa: BLE001 - "refused with an error": no document names the exception type
        o.label("refused:" + type(e).__name__)
        o.mark_nontrivial(True)
        return o
    # Not refused: the text must still be well formed and must mean what was given.
    o.label("written")
    ok = check_grammar(o, lines, bad["hybrid36"], clause="overlimit_refused_or_fixed_columns")
    if ok:
        exp_ids = None
        if kind in ("atom_id_wrap", "res_id_wrap"):
            # decimal mode: biotite maps ids above the maximum into the column range and warns.  Neither the
            # message nor the mapping is documented: any warning counts, and an id above the maximum may come
            # back as any number the column can hold - the same number through every way of reading, and
            # every id that did fit comes back unchanged.
            o.label("wrapped")
            o.check(
                len(warns) >= 1,
                "overlimit_id_wrap_warned",
                f"ids above the decimal maximum were silently replaced by other ids ({kind})",
            )
            exp_ids = wrapped_ids_as_read(o, bad, f)
        check_roundtrip(o, bad, f, clause_prefix="overlimit_written_", exp_ids=exp_ids)
    o.mark_nontrivial(True)
    return o


# --------------------------------------------------------------------------
# (d) bonds
# --------------------------------------------------------------------------
def _ccd():
    from fixtures import make_ccd

    return make_ccd


BOND_RES_NAMES = ["ALA", "GLY", "SER", "HOH", "ZN", "LIG", "XYZ", "UNL", "GLC"]
UNKNOWN_ATOMS = ["C1", "C2", "O1", "N1", "S1"]


def st_bonds(tier):
    max_res = 5 if tier == "quick" else 9

    @st.composite
    def gen(draw):
        nres = draw(st.integers(1, max_res))
        residues = []
        hybrid = draw(st.booleans())
        res_id = draw(st.integers(0 if hybrid else -5, 9990))
        chain = draw(st.sampled_from("AB"))
        # "twin": two bonded non-hetero residues with the same number in different chains
        # (the only case that needs the chain clause of the CONECT selection)
        twin = nres >= 2 and draw(st.integers(0, 5)) == 0
        for r_i in range(nres):
            name = draw(st.sampled_from(BOND_RES_NAMES))
            step = draw(st.sampled_from([0, 1, 1, 1, 2, 7]))
            if draw(st.integers(0, 2)) == 0:
                # a new chain often restarts with the same residue number
                chain = draw(st.sampled_from("ABC"))
                step = draw(st.sampled_from([0, 0, step]))
            if twin and r_i < 2:
                name = draw(st.sampled_from(["ALA", "GLY", "SER"]))
                if r_i == 1:
                    step = 0
                    chain = "C" if chain != "C" else "A"
            res_id = min(res_id + step, 9999)
            ccd_atoms = _ccd().BY_ID[name]["atoms"] if name in _ccd().BY_ID else [(a, a[0]) for a in UNKNOWN_ATOMS]
            k = draw(st.integers(1, min(len(ccd_atoms), 7)))
            start = draw(st.integers(0, len(ccd_atoms) - k))
            residues.append(
                {
                    "res_name": name,
                    "res_id": res_id,
                    "chain": chain,
                    "ins": draw(st.sampled_from(["", "", "", "A", "B"])),
                    "hetero": (draw(st.booleans()) and not (twin and r_i < 2)) if name in ("ALA", "GLY", "SER") else True,
                    # bond from the last atom of this residue to the first atom of the next one
                    "link": draw(st.booleans()) or (twin and r_i == 0),
                    "atoms": [list(a) for a in ccd_atoms[start : start + k]],
                }
            )
        natoms = sum(len(r["atoms"]) for r in residues)
        id_mode = draw(st.sampled_from(["default", "gaps", "gaps"]))
        first = 1
        if id_mode == "gaps":
            first = draw(st.one_of(st.integers(0, 50), st.sampled_from([99990, 99995, 100000, 100010]) if hybrid else st.integers(99000, 99999 - natoms * 3)))
        gaps = [draw(st.integers(1, 3)) for _ in range(natoms)]
        pairs = draw(st.lists(st.tuples(st.integers(0, 199), st.integers(0, 199), st.integers(0, 6)), max_size=14))
        hub = None
        if draw(st.booleans()):
            # one centre with > 4 partners
            hub = [draw(st.integers(0, 199)), draw(st.integers(5, 9)), draw(st.integers(0, 199))]
        clique = None
        if draw(st.integers(0, 2)) == 0:
            # 5-7 mutually bonded atoms: every atom has >= 4 partners and some bonds sit in the
            # fourth (or a later) position of the records of *both* their atoms
            clique = [draw(st.integers(0, 199)), draw(st.integers(5, 7))]
        return {
            "residues": residues,
            "clique": clique,
            "hybrid36": hybrid,
            "id_mode": id_mode,
            "first_id": first,
            "gaps": gaps,
            "pairs": [list(p) for p in pairs],
            "hub": hub,
            "with_ccd_bonds": draw(st.booleans()),
            "depth": draw(st.sampled_from([1, 1, 2])),
            # how the file is written and read back (cases stored earlier: method, model=1)
            "write_via_convert": draw(st.booleans()),
            "read": draw(st.sampled_from(["model_1", "model_1", "model_none", "model_last", "convert"])),
        }

    return gen()


def run_bonds(case):
    import biotite.structure as struc
    import biotite.structure.io.pdb as pdb
    from biotite.structure.io.pdb import PDBFile

    o = Outcome()
    residues = case["residues"]
    rows = []
    for r_i, r in enumerate(residues):
        for name, element in r["atoms"]:
            rows.append((r_i, r, name, element))
    n = len(rows)
    depth = case["depth"]
    arr = struc.AtomArrayStack(depth, n) if depth > 1 else struc.AtomArray(n)
    arr.coord = np.zeros(arr.coord.shape, dtype=np.float32) + np.arange(n, dtype=np.float32)[:, None]
    arr.chain_id = np.array([r["chain"] for _, r, _, _ in rows])
    arr.res_id = np.array([r["res_id"] for _, r, _, _ in rows], dtype=np.int64)
    arr.ins_code = np.array([r["ins"] for _, r, _, _ in rows], dtype="U1")
    arr.res_name = np.array([r["res_name"] for _, r, _, _ in rows])
    arr.hetero = np.array([bool(r["hetero"]) for _, r, _, _ in rows])
    arr.atom_name = np.array([nm for _, _, nm, _ in rows])
    arr.element = np.array([el for _, _, _, el in rows])
    if case["id_mode"] == "gaps":
        ids = []
        cur = case["first_id"]
        for g in case["gaps"][:n]:
            ids.append(cur)
            cur += g
        arr.set_annotation("atom_id", np.array(ids, dtype=np.int64))
    else:
        ids = list(range(1, n + 1))
    if not case["hybrid36"] and max(ids) > 99999:
        o.invalid = True
        return o

    # what connect_via_residue_names() adds on reading (documented merge; not under test here)
    with warnings.catch_warnings():
        warnings.simplefilter("ignore")
        inferred = struc.connect_via_residue_names(arr)
    inferred_types = {(int(min(i, j)), int(max(i, j))): int(t) for i, j, t in inferred.as_array()}

    original = {}
    if case["with_ccd_bonds"]:
        original.update(inferred_types)
    for i, j, t in case["pairs"]:
        i, j = i % n, j % n
        if i != j:
            original[(min(i, j), max(i, j))] = t
    if case["hub"] is not None and n >= 2:
        c, k, off = case["hub"]
        c %= n
        for d in range(k):
            j = (c + 1 + off + d) % n
            if j != c:
                original[(min(c, j), max(c, j))] = 1
    first_atom = {}
    last_atom = {}
    for k, (r_i, _, _, _) in enumerate(rows):
        first_atom.setdefault(r_i, k)
        last_atom[r_i] = k
    for r_i, r in enumerate(residues[:-1]):
        if r.get("link"):
            i, j = last_atom[r_i], first_atom[r_i + 1]
            original.setdefault((i, j), 1)
    if case.get("clique") is not None and n >= 5:
        start, size = case["clique"]
        members = sorted({(start + d) % n for d in range(min(size, n))})
        for a_i, i in enumerate(members):
            for j in members[a_i + 1 :]:
                original.setdefault((i, j), 0)
    bl = struc.BondList(n)
    for (i, j), t in sorted(original.items()):
        bl.add_bond(i, j, t)
    arr.bonds = bl

    f = PDBFile()
    with warnings.catch_warnings():
        warnings.simplefilter("ignore")
        if case.get("write_via_convert"):
            o.label("write_via_convert")
            pdb.set_structure(f, arr, hybrid36=case["hybrid36"])
        else:
            f.set_structure(arr, hybrid36=case["hybrid36"])
    check_grammar(o, f.lines, case["hybrid36"])
    g = reread(f)
    read = case.get("read", "model_1")
    o.label("read:" + read)
    with warnings.catch_warnings():
        warnings.simplefilter("ignore")
        if read == "model_none":
            # all models at once: the bonds belong to the stack
            back = g.get_structure(model=None, include_bonds=True, extra_fields=["atom_id"])
            if not o.check(isinstance(back, struc.AtomArrayStack) and back.stack_depth() == depth, "models_reproduced", "model=None must give a stack of all models"):
                return o
        elif read == "model_last":
            back = g.get_structure(model=-1, include_bonds=True, extra_fields=["atom_id"])
        elif read == "convert":
            back = pdb.get_structure(g, model=1, include_bonds=True, extra_fields=["atom_id"])
        else:
            back = g.get_structure(model=1, include_bonds=True, extra_fields=["atom_id"])
    if not o.check_eq(back.array_length(), n, "bonds_reproduced", "number of atoms"):
        return o
    if not o.check(back.bonds is not None, "bonds_reproduced", "include_bonds=True gave a structure without a BondList"):
        return o
    o.check_eq(back.atom_id.tolist(), ids, "atom_id_reproduced", "atom ids")
    got = {(int(min(i, j)), int(max(i, j))): int(t) for i, j, t in back.bonds.as_array()}

    # a residue is identified by chain, number and insertion code (10 and 10A are two residues)
    key = [(r["chain"], r["res_id"], r["ins"]) for _, r, _, _ in rows]
    water = [r["res_name"] in ("HOH", "SOL") for _, r, _, _ in rows]
    het = [bool(r["hetero"]) and not w for (_, r, _, _), w in zip(rows, water)]
    must = {p for p in original if het[p[0]] or het[p[1]] or key[p[0]] != key[p[1]]}
    missing = sorted(must - set(got))
    o.check(not missing, "conect_bonds_reproduced", lambda: f"bonds lost: {missing} (atoms {[rows[i][1:3] for p in missing for i in p][:4]})")
    extra = sorted(set(got) - set(original) - set(inferred_types))
    o.check(not extra, "no_bond_invented", lambda: f"bonds that were never given: {extra}")
    wrong_type = [
        (p, t) for p, t in got.items() if t != inferred_types.get(p, int(struc.BondType.ANY))
    ]
    o.check(not wrong_type, "conect_bond_type", lambda: f"bond types: {wrong_type[:5]}")

    degree = {}
    for i, j in must:
        degree[i] = degree.get(i, 0) + 1
        degree[j] = degree.get(j, 0) + 1
    if degree and max(degree.values()) > 4:
        o.label("more_than_4_partners")
    if degree and max(degree.values()) > 8:
        o.label("more_than_8_partners")
    if any(het[i] or het[j] for i, j in must):
        o.label("hetero_bond")
    if any(key[i] != key[j] for i, j in must):
        o.label("inter_residue_bond")
    if any(key[i][:2] == key[j][:2] and key[i][2] != key[j][2] and not (het[i] or het[j]) for i, j in must):
        o.label("bond_between_residues_differing_in_ins_code")
    if any(key[i][0] != key[j][0] and key[i][1] == key[j][1] and not (het[i] or het[j]) for i, j in must):
        o.label("inter_chain_same_res_id_bond")
    if any(min(degree.get(i, 0), degree.get(j, 0)) >= 4 for i, j in must):
        o.label("bond_between_two_hubs")
    if any((water[i] or water[j]) for i, j in must):
        o.label("water_bond_written")
    if any(water[i] and water[j] and key[i] == key[j] for i, j in original):
        o.label("intra_water_bond_not_written")
    if any(p not in must for p in original):
        o.label("bond_not_carried")
    if case["hybrid36"] and max(ids) > 99999:
        o.label("hybrid36_ids")
    if case["id_mode"] == "gaps":
        o.label("id_gaps")
    o.label(f"models={depth}", "no_must_bonds" if not must else "must_bonds")
    o.mark_nontrivial(len(must) >= 1 and (max(degree.values()) > 4 or any(het[i] != het[j] for i, j in must) or max(ids) > 99999))
    return o


# --------------------------------------------------------------------------
# (e) hybrid-36 codec
# --------------------------------------------------------------------------
_DIG_U = "0123456789ABCDEFGHIJKLMNOPQRSTUVWXYZ"
_DIG_L = _DIG_U.lower()


def _base36(n, digits, length):
    out = []
    for _ in range(length):
        n, r = divmod(n, 36)
        out.append(digits[r])
    assert n == 0
    return "".join(reversed(out))


def model_encode(n, length):
    """hybrid-36 specification (decimal, then upper case base 36, then lower case);
    decimal numbers are not padded (biotite pads when it writes the column)."""
    if n < 0:
        raise ValueError
    if n < 10**length:
        return str(n)
    n -= 10**length
    block = 26 * 36 ** (length - 1)
    if n < block:
        return _base36(n + 10 * 36 ** (length - 1), _DIG_U, length)
    n -= block
    if n < block:
        return _base36(n + 10 * 36 ** (length - 1), _DIG_L, length)
    raise ValueError


def h36_excluded(n, length, case=None):
    """Input class of the open finding C07-F1 (32 bit overflow at length 6)."""
    if case is not None and case.get("no_exclude"):
        return False
    return length == 6 and n >= H36_L6_FIRST_BAD and findings.is_open("C07-F1")


def check_codec_value(o, n, length, with_model=True):
    from biotite.structure.io.pdb.hybrid36 import decode_hybrid36, encode_hybrid36

    top = h36_max(length)
    if n < 0 or n > top:
        # Outside the range of the encoding.  "A positive integer" is all the docstring says: the number
        # is refused (no document names the exception type), or - what the reference implementation
        # does for negative numbers that fit, '-999' - it is encoded within the width such that
        # decoding gives it back.  Never: a string that means another number, or a longer string.
        what = "negative" if n < 0 else "beyond_max"
        try:
            r = encode_hybrid36(n, length)
        except Exception as e:  # noqa: BLE001
            o.label(f"{what}:refused:{type(e).__name__}")
            return
        o.label(f"{what}:encoded")
        if not o.check(
            isinstance(r, str) and 1 <= len(r) <= length,
            "hybrid36_out_of_range_rejected",
            f"encode_hybrid36({n}, {length}) returned {r!r}: neither refused nor {length} characters",
        ):
            return
        try:
            back = decode_hybrid36(r)
        except Exception as e:  # noqa: BLE001
            back = f"{type(e).__name__}: {e}"
        o.check_eq(back, n, "hybrid36_out_of_range_rejected", f"encode_hybrid36({n}, {length}) returned {r!r} instead of refusing; decoded")
        return
    try:
        s = encode_hybrid36(n, length)
    except OverflowError as e:
        o.fail("hybrid36_in_range_encodable", f"encode_hybrid36({n}, {length}) raises OverflowError: {e}")
        return
    if not o.check(isinstance(s, str) and 1 <= len(s) <= length, "hybrid36_width", f"encode_hybrid36({n}, {length}) = {s!r}"):
        return
    if with_model:
        # blank padding to the requested length is as conformant as the bare number
        o.check_eq(s.strip(" "), model_encode(n, length), "hybrid36_matches_spec", f"encode_hybrid36({n}, {length}) = {s!r}, without padding")
    try:
        back = decode_hybrid36(s)
    except ValueError as e:
        o.fail("hybrid36_decode_inverts_encode", f"encode_hybrid36({n}, {length}) = {s!r} which decode_hybrid36 rejects: {e}")
        return
    o.check_eq(back, n, "hybrid36_decode_inverts_encode", f"encode_hybrid36({n}, {length}) = {s!r}, decoded")


def string_value(s):
    """Value of a canonical hybrid-36 string according to the specification."""
    length = len(s)
    if s[0].isdigit():
        return int(s)
    digits = _DIG_U if s[0].isupper() else _DIG_L
    v = 0
    for ch in s:
        v = v * 36 + digits.index(ch)
    return v - 10 * 36 ** (length - 1) + 10**length + (26 * 36 ** (length - 1) if s[0].islower() else 0)


def check_codec_string(o, s, length):
    """canonical string (as encode writes it) -> number -> the same string"""
    from biotite.structure.io.pdb.hybrid36 import decode_hybrid36, encode_hybrid36

    n = decode_hybrid36(s)
    if not o.check_eq(n, string_value(s), "hybrid36_matches_spec", f"decode_hybrid36({s!r})"):
        return
    o.check_eq(encode_hybrid36(n, length).strip(" "), s, "hybrid36_encode_inverts_decode", f"encode_hybrid36(decode_hybrid36({s!r}), {length}) without padding")


def st_h36_string(length):
    def build(t):
        kind, dec, first, rest = t
        if kind == 0:
            return str(dec)
        digits = _DIG_U if kind == 1 else _DIG_L
        return digits[10 + first % 26] + "".join(digits[c % 36] for c in rest)

    return st.tuples(
        st.integers(0, 2),
        st.integers(0, 10**length - 1),
        st.integers(0, 259),
        st.lists(st.integers(0, 359), min_size=length - 1, max_size=length - 1),
    ).map(build)


def st_codec(tier):
    bulk = 2000 if tier == "quick" else 8000

    @st.composite
    def gen(draw):
        length = draw(st.sampled_from([1, 2, 3, 4, 4, 4, 5, 5, 5, 6]))
        top = h36_max(length)
        values = draw(
            st.lists(
                st.one_of(st.integers(0, top), st.integers(-3, 10 ** min(length, 3)), st.integers(top - 40, top + 40), st.integers(10**length - 40, 10**length + 40)),
                max_size=30,
            )
        )
        strings = draw(st.lists(st_h36_string(length), max_size=20))
        return {"length": length, "values": values, "strings": strings, "seed": draw(st.integers(0, 2**32 - 1)), "bulk": bulk}

    return gen()


def run_codec(case):
    from biotite.structure.io.pdb.hybrid36 import max_hybrid36_number

    o = Outcome()
    length = case["length"]
    top = h36_max(length)
    o.label(f"length={length}")
    o.check_eq(max_hybrid36_number(length), top, "hybrid36_max_number", f"max_hybrid36_number({length})")
    excluded = 0
    values = list(case["values"])
    rng = np.random.default_rng(case["seed"])
    values += [int(v) for v in rng.integers(0, top + 1, size=case["bulk"], dtype=np.int64)]
    beyond = 0
    for n in values:
        if h36_excluded(n, length, case):
            excluded += 1
            continue
        if n > 10**length - 1:
            beyond += 1
        check_codec_value(o, n, length)
        if len(o.violations) > 5:
            break
    for s in case["strings"]:
        if h36_excluded(string_value(s), length, case):
            excluded += 1
            continue
        check_codec_string(o, s, length)
    if excluded:
        o.exclude("C07-F1")
        o.label("excluded_length6_overflow")
    o.mark_nontrivial(beyond > 0)
    return o


def h36_boundaries(length):
    top = h36_max(length)
    pts = {0, top}
    for k in range(0, length + 1):
        pts.add(10**k)
    block = 36 ** (length - 1)
    for j in range(0, 53):
        base = 10**length + j * block
        pts.add(base)
        # digit/letter boundaries of the lower places under this first letter
        if j < 52:
            for p in range(0, length - 1):
                for d in (10, 35, 36):
                    pts.add(base + d * 36**p - (1 if d == 36 else 0))
    # beyond the C integer widths: must be refused, never taken modulo 2**32 or 2**64
    for w in (2**31, 2**32, 2**63, 2**64):
        for extra in (0, 57, 10 ** (length - 1), top):
            pts.add(w + extra)
            pts.add(-w - extra)
    out = set()
    for p in pts:
        for d in range(-3, 4):
            out.add(p + d)
    return sorted(out)


def enum_codec_boundaries(tier):
    for length in range(1, 7):
        pts = h36_boundaries(length)
        for k in range(0, len(pts), 64):
            yield {"length": length, "values": pts[k : k + 64]}


def run_codec_boundaries(case):
    from biotite.structure.io.pdb.hybrid36 import encode_hybrid36, max_hybrid36_number

    o = Outcome()
    length = case["length"]
    top = h36_max(length)
    o.label(f"length={length}")
    excluded = 0
    for n in case["values"]:
        if h36_excluded(n, length, case):
            excluded += 1
            continue
        check_codec_value(o, n, length)
    if top in case["values"] and not h36_excluded(top, length, case):
        o.label("max_number")
        o.check_eq(max_hybrid36_number(length), top, "hybrid36_max_number", f"max_hybrid36_number({length})")
        try:
            o.check_eq(encode_hybrid36(top, length).strip(" "), "z" * length, "hybrid36_max_number", f"encode_hybrid36({top}, {length})")
        except OverflowError as e:
            o.fail("hybrid36_max_number", f"encode_hybrid36({top}, {length}) raises OverflowError: {e}")
    if excluded:
        o.exclude("C07-F1")
        o.label("excluded_length6_overflow")
    o.mark_nontrivial(any(n >= 10**length for n in case["values"]))
    return o


EXH_CHUNK = 50000


H36_WINDOW = 10000


def enum_codec_exhaustive(tier):
    lengths = [1, 2, 3, 4] if tier == "quick" else [1, 2, 3, 4, 5]
    for length in lengths:
        top = h36_max(length)
        chunk = EXH_CHUNK if length < 5 else 400000
        for lo in range(0, top + 1, chunk):
            yield {"length": length, "lo": lo, "hi": min(lo + chunk, top + 1)}
    if tier == "quick":
        # width 5 (87 million numbers) is enumerated in the thorough tier only; here: every number within
        # +-H36_WINDOW of each change of the first character (end of the decimal range, A..Z, a..z, maximum)
        top = h36_max(5)
        for j in range(0, 53):
            b = 10**5 + j * 36**4
            yield {"length": 5, "lo": max(0, b - H36_WINDOW), "hi": min(b + H36_WINDOW, top + 1), "window": True}


def run_codec_exhaustive(case):
    from biotite.structure.io.pdb.hybrid36 import decode_hybrid36, encode_hybrid36

    o = Outcome()
    length = case["length"]
    o.label(f"length={length}" + (":windows_at_first_character_changes" if case.get("window") else ""))
    bad = 0
    prev = None
    for n in range(case["lo"], case["hi"]):
        s = encode_hybrid36(n, length)
        if decode_hybrid36(s) != n or len(s) > length:
            bad += 1
            if bad <= 3:
                o.fail("hybrid36_decode_inverts_encode", f"encode_hybrid36({n}, {length}) = {s!r} decodes to {decode_hybrid36(s)!r}")
        if n % 97 == 0 or prev is None:
            if s.strip(" ") != model_encode(n, length):
                o.fail("hybrid36_matches_spec", f"encode_hybrid36({n}, {length}) = {s!r}, specification {model_encode(n, length)!r}")
        prev = s
    o.mark_nontrivial(case["hi"] > 10**length)
    return o


# --------------------------------------------------------------------------
# fixed boundary structures (every limit value once, one field at a time)
# --------------------------------------------------------------------------
def _base_case(hybrid36=False):
    return {
        "hybrid36": hybrid36,
        "via_convert": False,
        "as_stack": False,
        "fields": ["atom_id", "b_factor", "charge", "occupancy"],
        "bf_dtype": "f8",
        "atoms": [
            {"chain": "A", "res_id": 1, "ins": "", "res_name": "ALA", "hetero": False, "name": "CA", "element": "C",
             "atom_id": 1, "b": 10.0, "occ": 1.0, "charge": 0},
            {"chain": "B", "res_id": 2, "ins": "A", "res_name": "ZN", "hetero": True, "name": "ZN", "element": "ZN",
             "atom_id": 2, "b": 20.5, "occ": 0.5, "charge": 2},
        ],
        "coords": [[[1.0, 2.0, 3.0], [4.0, 5.0, 6.0]]],
        "cell": None,
        "read_model": 0,
    }


def enum_limits(tier):
    """Every pooled boundary value placed alone into an otherwise plain structure."""
    for hybrid in (False, True):
        for v in sorted(set(COORD_EDGE_IN) | set(COORD_OTHER_IN)):
            for axis in range(3):
                c = _base_case(hybrid)
                c["coords"][0][1][axis] = v
                yield c
        for key in ("b", "occ"):
            for dt in ("f8", "f4"):
                for v in sorted(set(BF_EDGE_IN) | set(BF_OTHER_IN)):
                    c = _base_case(hybrid)
                    c["bf_dtype"] = dt
                    c["atoms"][0][key] = v
                    if fits_fixed(f32(v) if dt == "f4" else v, 2, 6):
                        yield c
        for v in ATOM_ID_H36_POOL if hybrid else ATOM_ID_DEC_POOL:
            c = _base_case(hybrid)
            c["atoms"][1]["atom_id"] = v
            yield c
        for v in RES_ID_H36_POOL if hybrid else RES_ID_DEC_POOL:
            c = _base_case(hybrid)
            c["atoms"][0]["res_id"] = v
            yield c
        for q in range(-9, 10):
            c = _base_case(hybrid)
            c["atoms"][0]["charge"] = q
            yield c
        for v in BOX_EDGE_IN + BOX_OTHER:
            for axis in range(3):
                c = _base_case(hybrid)
                cell = [10.0, 20.0, 30.0, 90.0, 90.0, 90.0]
                cell[axis] = v
                c["cell"] = cell
                yield c
        for angles in CELL_ANGLES:
            for lengths in ([50.0, 80.0, 120.0], [10.5, 10.5, 10.5], [300.0, 300.0, 50.0], [40.0, 9999.9995, 0.0625]):
                c = _base_case(hybrid)
                c["cell"] = [f32(v) for v in lengths] + list(angles)
                yield c
        for chain in ("", "A", "z", "0"):
            for rid in (-999, -1, 1, 1234, 9999) if not hybrid else (0, 1, 1234, 9999, 10000):
                for ins in ("", "B"):
                    c = _base_case(hybrid)
                    c["atoms"][0].update({"chain": chain, "res_id": rid, "ins": ins})
                    yield c
    # default numbering across the 99999 -> 100000 wrap point (hybrid-36)
    yield {"big": 100002, "hybrid36": True}
    if tier == "thorough":
        yield {"big": 100002, "hybrid36": False}


def run_limits(case):
    if "big" in case:
        return run_big(case)
    return run_roundtrip(case)


def run_big(case):
    """100 002 atoms with continuous numbering: hybrid-36 encodes, decimal mode wraps and warns
    (or refuses)."""
    import biotite.structure as struc
    from biotite.structure.io.pdb import PDBFile

    o = Outcome()
    n = case["big"]
    arr = struc.AtomArray(n)
    arr.coord = np.zeros((n, 3), dtype=np.float32)
    arr.chain_id[:] = "A"
    arr.res_id = np.arange(1, n + 1)
    arr.res_name[:] = "GLY"
    arr.atom_name[:] = "CA"
    arr.element[:] = "C"
    o.label("big")
    o.mark_nontrivial(True)
    if case["hybrid36"]:
        f, lines, warns = write_pdb(arr, True, False)
    else:
        # more atoms (and residues) than the decimal columns can number: "refused with an error" is what
        # the property states, wrapping the default numbering (100000 -> 1) with a warning is what the
        # repository tests pin; both are accepted
        try:
            f, lines, warns = write_pdb(arr, False, False)
        except Exception as e:  # noqa: BLE001 - no document names the exception type
            o.label("big_refused:" + type(e).__name__)
            return o
        o.label("big_wrapped")
    check_grammar(o, lines[:5] + lines[9990:10010] + lines[99990:], case["hybrid36"])
    back = reread(f).get_structure(model=1, extra_fields=["atom_id"])
    if case["hybrid36"]:
        o.check_eq(back.atom_id[[0, 99998, 99999, n - 1]].tolist(), [1, 99999, 100000, n], "atom_id_reproduced", "default numbering")
        o.check_array_eq(back.res_id, np.arange(1, n + 1), "res_id_reproduced", "res ids")
    else:
        o.check(len(warns) >= 1, "overlimit_id_wrap_warned", "atom and residue numbers were wrapped without any warning")
        o.check_eq(back.atom_id[[0, 99998, 99999, n - 1]].tolist(), [1, 99999, 1, 3], "atom_id_reproduced", "wrapped numbering")
    return o


# --------------------------------------------------------------------------
# registration
# --------------------------------------------------------------------------
def setup():
    from fixtures import make_ccd

    make_ccd.use()


SUBS = [
    Sub(
        "roundtrip",
        lambda tier: st_structure(tier, False),
        run_roundtrip,
        quick=2400,
        thorough=100000,
        rule="value within 2 ulps of a column limit / knife edge (coordinate, B-factor, occupancy, box) or id at the limit",
        clauses="decimal mode: fixed columns of every ATOM/HETATM/CRYST1 record; round trip of all annotations, models, coordinates, box",
    ),
    Sub(
        "roundtrip_hybrid36",
        lambda tier: st_structure(tier, True),
        run_roundtrip,
        quick=1760,
        thorough=80000,
        rule="atom id > 99999 or residue id > 9999, or a value near a column limit",
        clauses="hybrid-36 mode: the same with atom/residue numbers up to the hybrid-36 maxima",
    ),
    Sub(
        "overlimit",
        st_overlimit,
        run_overlimit,
        quick=3200,
        thorough=120000,
        rule="every case (one field exceeds its column by one step or more, or is NaN/inf)",
        clauses="input exceeding a column is refused, or written into the fixed columns with the stated meaning",
    ),
    Sub(
        "bonds",
        st_bonds,
        run_bonds,
        quick=1600,
        thorough=60000,
        rule=">= 1 CONECT-carried bond and (a centre with > 4 partners or a hetero/non-hetero bond or hybrid-36 ids)",
        clauses="CONECT: hetero, inter-residue and water bonds come back, nothing is invented, types ANY unless the dictionary knows them",
    ),
    Sub(
        "hybrid36_codec",
        st_codec,
        run_codec,
        quick=112,
        thorough=800,
        rule="batch with >= 1 value beyond the decimal range",
        clauses="encode/decode mutually inverse for lengths 1..6; values beyond the maximum and negative values are rejected or encoded within the width such that decoding inverts it, never mapped to another number",
    ),
]

ENUMS = [
    Enum(
        "limit_values",
        enum_limits,
        run_limits,
        rule="as roundtrip",
        clauses="every pooled boundary value alone in a two atom structure, decimal and hybrid-36",
        exhaustive=True,
    ),
    Enum(
        "hybrid36_boundaries",
        enum_codec_boundaries,
        run_codec_boundaries,
        rule="batch holds a value beyond the decimal range",
        clauses="every decade and letter boundary +-3 for lengths 1..6; max_hybrid36_number is the largest encodable value",
        exhaustive=True,
    ),
    Enum(
        "hybrid36_exhaustive",
        enum_codec_exhaustive,
        run_codec_exhaustive,
        rule="chunk reaches beyond the decimal range",
        clauses="decode(encode(n, L)) == n for ALL n in [0, max(L)]: L = 1..4 (quick; L = 5 only +-10000 around each change of the first character), L = 1..5 (thorough)",
        exhaustive=True,
    ),
]


def _match_len6_overflow(sub, case, clause, message):
    """C07-F1: only length 6, only hybrid-36 codec clauses, only values from the first
    value whose base-36 transform leaves the 32 bit range."""
    if not clause.startswith("hybrid36") or case.get("length") != 6:
        return False
    m = re.search(r"encode_hybrid36\((-?\d+), 6\)", message)
    if m:
        return int(m.group(1)) >= H36_L6_FIRST_BAD
    m = re.search(r"decode_hybrid36\('([^']*)'\)", message)
    if m:
        try:
            return string_value(m.group(1).strip()) >= H36_L6_FIRST_BAD
        except (ValueError, IndexError):
            return False
    return False


FINDINGS = {"hybrid36_length6_int_overflow": _match_len6_overflow}
