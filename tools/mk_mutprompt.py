#!/venv/bin/python
"""mk_mutprompt.py Cxx "<test paths>" ["extra note"] -> /tmp/mutprompt_Cxx.txt (brief for a fresh mutation sub-agent; contains nothing from /verif except the property text)"""
import json, sys
pid, tests = sys.argv[1], sys.argv[2]
extra = sys.argv[3] if len(sys.argv) > 3 else ""
import os
if os.environ.get("MUT_HARD"):
    extra += """
An earlier round of straightforward single-site slips (a swapped comparison, a dropped term, a wrong default) has already been produced by somebody else; do NOT repeat that style. Aim for changes of a different character, for example: (1) stale state or caching that leaks between calls or between objects (module-level caches, objects sharing arrays, in-place modification of an argument or of a returned view); (2) behaviour that only changes beyond a size / count / magnitude threshold or at a dtype limit (vectorised fast paths, chunking, integer width selection); (3) rarely used options and argument combinations, or input container types (list vs ndarray vs other dtype, Fortran order, non-contiguous views, 0-length inputs); (4) two cooperating sites that each look fine alone; (5) error paths: what state is left behind after an exception, or which exception is raised. Each of your three mutants should come from a different one of these families."""
p = [json.loads(l) for l in open('/verif/properties.jsonl') if json.loads(l)['id'] == pid][0]
tag = __import__("os").environ.get("MUT_TAG", "")
wt = f"/tmp/mut{tag}_{pid}"
files = ", ".join(p['anchors']['files'])
txt = f"""You are helping to evaluate a verification effort by writing realistic *breaking changes* to an open-source library. You work ONLY inside the scratch git worktree {wt} (a checkout of the Python bioinformatics library biotite; run Python as `PYTHONPATH={wt}/src /venv/bin/python`, which makes the worktree's code win over the installed one; compiled extension modules are already present; Cython is NOT available, so change only .py files - .pyx files cannot be rebuilt and edits to them have no effect). Do not read or touch anything under /verif or /repo.

The property that the library is supposed to satisfy ({pid}: {p['title']}):

"{p['statement']}"

Quantified over: {p['quantifier']['text']}
Relevant code: {files} (and the .py code they call).
{extra}

Task: produce THREE different, independent changes ("mutants") to the library, each of which breaks this property while the code still imports and the existing test suite still passes. Test command: `cd {wt} && PYTHONPATH={wt}/src /venv/bin/python -m pytest -q -p no:cacheprovider -n 4 {tests}` - first record which tests already fail BEFORE your change (many fail in this environment because the Chemical Component Dictionary and some data files are missing) and make sure your change adds no new failure (compare the sets of failing test ids, e.g. with `-rf`). Each change should look like a plausible refactoring/optimisation/cleanup slip by a maintainer, and should need something specific to manifest - an unusual input, a particular combination of options, a multi-step sequence of operations, a fault at a particular point, or two cooperating sites that each look fine alone - NOT something ordinary use would expose at once. Make the three mutants differ in which sentence/clause of the property they break and in which function they touch.

For each mutant i in 1..3 deliver in /tmp/mut{tag}_{pid}_out/m<i>/:
- patch.diff : `git diff` output of the change relative to the worktree HEAD (must apply with `git apply` on a clean checkout),
- demo.py : a small standalone program that exits 0 on the original code and exits 1 (printing what went wrong) with the change applied, when run as `PYTHONPATH=<tree>/src /venv/bin/python demo.py` (if the property needs the Chemical Component Dictionary, avoid that code path or build the needed inputs by hand),
- meta.json : {{"property": "{pid}", "breaks": "<which sentence>", "needs": "<what specific input/sequence is needed to manifest>", "files": [...], "tests_run": "<command>", "tests_result": "<failing set identical to baseline: N failed / M passed>"}}.
Work on one mutant at a time: apply, run tests, run demo (must exit 1), `git -C {wt} checkout -- .` to revert, run demo again (must exit 0). Leave the worktree clean (no uncommitted changes) at the end. Keep total effort moderate (aim to finish within about 30-40 minutes). Final message: a short list of the three mutants (one line each).
"""
open(f"/tmp/mutprompt{tag}_{pid}.txt", "w").write(txt)
print(f"/tmp/mutprompt{tag}_{pid}.txt")
