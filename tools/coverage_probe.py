#!/venv/bin/python
"""coverage_probe.py Cxx [examples_per_sub] -> line coverage of the property's anchored .py files
under the check's own generators (single process, no sharding).  Diagnostic only."""
import json, os, sys, time
from pathlib import Path
ROOT = Path(__file__).resolve().parent.parent
sys.path.insert(0, str(ROOT))
import coverage

prop = sys.argv[1]
n_ex = int(sys.argv[2]) if len(sys.argv) > 2 else 300
props = {json.loads(l)["id"]: json.loads(l) for l in open(ROOT / "properties.jsonl")}
anchors = [f for f in props[prop]["anchors"]["files"] if f.endswith(".py")]
cov = coverage.Coverage(include=["/repo/src/biotite/*"], data_file=None)
cov.start()
from vlib.worker import load_module, execute
import hypothesis
from hypothesis import given, settings, HealthCheck, Phase
mod = load_module(prop)
if hasattr(mod, "setup"):
    mod.setup()
for en in getattr(mod, "ENUMS", []):
    for i, case in enumerate(en.cases("quick")):
        if i % 7 == 0:
            execute(en.run, json.loads(json.dumps(case, default=str)) if False else case)
        if i > 3000:
            break
for sub in getattr(mod, "SUBS", []):
    @hypothesis.seed(1)
    @settings(max_examples=n_ex, database=None, deadline=None, phases=[Phase.generate], suppress_health_check=list(HealthCheck))
    @given(sub.strategy("quick"))
    def t(case):
        from vlib.core import canonical
        execute(sub.run, canonical(case))
    t0 = time.time()
    t()
cov.stop()
for f in anchors:
    path = "/repo/" + f
    try:
        _, stmts, _, missing, _ = cov.analysis2(path)
    except Exception as e:
        print(f, "not measured:", e); continue
    pct = 100 * (1 - len(missing) / max(1, len(stmts)))
    # compress missing into ranges
    rng = []
    for m in missing:
        if rng and m == rng[-1][1] + 1: rng[-1][1] = m
        else: rng.append([m, m])
    txt = ", ".join(f"{a}-{b}" if a != b else str(a) for a, b in rng)
    print(f"{f}: {pct:.0f}% of {len(stmts)} statements; missing: {txt[:900]}")
