#!/bin/bash
# usage: apply_fix.sh <proposed_fixes/Cxx-y.diff>  -- apply to /repo and commit with the message from the '# ' header
set -e
D="$(readlink -f "$1")"
cd /repo
git diff --quiet || { echo "repo dirty"; exit 1; }
grep -v '^#' "$D" > /tmp/apply_fix.patch
git apply /tmp/apply_fix.patch
grep '^#' "$D" | sed -e 's/^# \?//' > /tmp/apply_fix.msg
git commit -qa -F /tmp/apply_fix.msg
git log --oneline | head -1
