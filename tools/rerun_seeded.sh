#!/bin/bash
# usage: rerun_seeded.sh Cxx [seed]   -- every stored change of seeded/Cxx-*/ against the current quick check
# (scratch copy of /repo/src + PYTHONPATH, /repo is not touched; generated-C patches are rebuilt in the copy).
# Prints one line per change; "MISSED" if the check exits 0.
P="$1"; SEED="${2:-1}"
for d in /verif/seeded/$P-*/; do
  id=$(basename $d)
  ROOT=$(mktemp -d /tmp/mutroot_XXXX)
  cp -a /repo/src $ROOT/src
  if ! patch -s -p1 -d $ROOT < "$d/patch.diff" >/dev/null 2>&1; then echo "$id: PATCH DOES NOT APPLY"; rm -rf $ROOT; continue; fi
  if grep -q '^+++ b/.*\.\(c\|cpp\)$' "$d/patch.diff"; then
    VERIF_REPO_SRC=$ROOT/src /venv/bin/python /verif/tools/rebuild_ext.py >/dev/null 2>&1 || { echo "$id: REBUILD FAILED"; rm -rf $ROOT; continue; }
  fi
  cd /verif; out=$(VERIF_BUDGET_S=${VERIF_BUDGET_S:-900} VERIF_REPO_SRC=$ROOT/src VERIF_EVIDENCE_DIR=/tmp/verif_scratch_evidence PYTHONPATH=$ROOT/src VERIF_SEED=$SEED /venv/bin/python vcheck.py "$P" --tier quick 2>&1); ce=$?
  rm -rf $ROOT
  clauses=$(echo "$out" | grep -o "^  \[[a-z_0-9]*\] clause=[a-z_A-Z0-9]*" | sort -u | head -4 | tr '\n' ';')
  if [ $ce -eq 1 ]; then echo "$id: caught $clauses"; elif [ $ce -eq 0 ]; then echo "$id: MISSED"; else echo "$id: exit $ce (harness error) $(echo "$out" | grep -m1 'harness error' | cut -c1-200)"; fi
done
