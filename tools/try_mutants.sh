#!/bin/bash
# usage: try_mutants.sh Cxx  -- runs every /tmp/mut_Cxx_out/m*/ against the quick check; prints a summary line each
P="$1"
for d in /tmp/mut_${P}_out/m*/; do
  m=$(basename $d)
  cd /repo
  if ! git diff --quiet; then echo "repo dirty"; exit 9; fi
  if ! git apply --check "$d/patch.diff" 2>/dev/null; then echo "$P $m: PATCH DOES NOT APPLY to current HEAD"; continue; fi
  git apply "$d/patch.diff"
  /venv/bin/python "$d/demo.py" >/dev/null 2>&1; dm=$?
  cd /verif; out=$(VERIF_SEED=${VERIF_SEED:-1} /venv/bin/python vcheck.py "$P" --tier quick 2>&1); ce=$?
  cd /repo; git checkout -- .
  /venv/bin/python "$d/demo.py" >/dev/null 2>&1; dc=$?
  clauses=$(echo "$out" | grep -o "^  \[[a-z_0-9]*\] clause=[a-z_A-Z0-9]*" | sort -u | tr '\n' ';')
  echo "$P $m: demo_mutant=$dm demo_clean=$dc check_exit=$ce  $clauses"
done
