#!/venv/bin/python
"""Regenerate the generated blocks of DESIGN.md (between <!-- BEGIN x --> / <!-- END x --> markers):
findings table from known_findings.json, seeded-mutant table from seeded/*/meta.json."""
import json, re
from pathlib import Path
ROOT = Path(__file__).resolve().parent.parent

def findings_table():
    data = json.load(open(ROOT / "known_findings.json"))["findings"]
    for frag in sorted((ROOT / "known_findings.d").glob("*.json")):
        data += json.load(open(frag))["findings"]
    data.sort(key=lambda e: (e["property"], e["status"] != "fixed", e["id"]))
    rows = ["| id | status | clause | what |", "|----|--------|--------|------|"]
    for e in data:
        st = e["status"] + (f" in `{e['fixed_in']}`" if e.get("fixed_in") else "")
        what = e["what"].replace("|", "\\|").replace("\n", " ")
        rows.append(f"| {e['id']} | {st} | {e.get('clause','')} | {what} |")
    n_fixed = sum(e["status"] == "fixed" for e in data)
    n_open = sum(e["status"] == "open" for e in data)
    return f"{n_fixed} defects repaired by `fix:` commits in /repo, {n_open} recorded as open known findings.\n\n" + "\n".join(rows)

def seeded_table():
    rows = ["| mutant | property | what it needs to manifest | caught by (sub-check / clause) |", "|--------|----------|---------------------------|-------------------------------|"]
    n = c = 0
    for d in sorted((ROOT / "seeded").iterdir()):
        mp = d / "meta.json"
        if not mp.exists():
            continue
        m = json.load(open(mp))
        n += 1
        caught = m.get("caught_by", "?")
        final = m.get("caught_by_final_run")
        if final:
            # clauses reported by the checks as committed; the history ("missed at first: ...") comes from caught_by
            hist = re.search(r"\((missed at first|first a harness error).*$", str(caught))
            caught = final + (" " + hist.group(0) if hist else "")
        if caught and not caught.lower().startswith("missed"):
            c += 1
        needs = str(m.get("needs", "")).replace("|", "\\|").replace("\n", " ")[:260]
        rows.append(f"| {d.name} | {m.get('property')} | {needs} | {str(caught).replace('|', '/')} |")
    return f"{n} seeded changes kept, {c} caught by the registered quick checks.\n\n" + "\n".join(rows)

def main():
    p = ROOT / "DESIGN.md"
    s = p.read_text()
    for name, fn in (("FINDINGS", findings_table), ("SEEDED", seeded_table)):
        pat = re.compile(rf"(<!-- BEGIN {name} -->\n).*?(<!-- END {name} -->)", re.S)
        if not pat.search(s):
            raise SystemExit(f"marker {name} missing in DESIGN.md")
        s = pat.sub(lambda m: m.group(1) + fn() + "\n" + m.group(2), s)
    p.write_text(s)
    print("DESIGN.md tables regenerated")

if __name__ == "__main__":
    main()
