#!/bin/bash
# usage: mk_worktree_c.sh <dir>   -- like mk_worktree.sh, but the git-ignored generated C/C++ sources are copied too
# (mtimes preserved, so that only an edited .c/.cpp is newer than its .so)
set -e
D="$1"
git -C /repo worktree add --detach "$D" HEAD >/dev/null 2>&1
cd /repo
find src \( -name "*.so" -o -name "version.py" -o -name "*.c" -o -name "*.cpp" \) | while read f; do cp -p "$f" "$D/$f"; done
echo "worktree $D ready (with generated C); run python with PYTHONPATH=$D/src"
