#!/bin/bash
# usage: mk_worktree.sh <dir>   -- scratch git worktree of /repo HEAD with the (git-ignored) build outputs copied in
set -e
D="$1"
git -C /repo worktree add --detach "$D" HEAD >/dev/null 2>&1
cd /repo
find src -name "*.so" -o -name "version.py" | while read f; do cp -p "$f" "$D/$f"; done
echo "worktree $D ready; run python with PYTHONPATH=$D/src"
