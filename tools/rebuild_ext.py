#!/venv/bin/python
"""
Recompile stale biotite extension modules from the generated C/C++ sources.

Cython is not available in this image (see DESIGN.md section 1), so the only
part of "rebuild from the working tree" that can be done for compiled code is:
if a generated ``*.c``/``*.cpp`` under /repo/src is newer than its ``*.so``
(or the ``*.so`` is missing), compile it with gcc/g++ against the CPython and
NumPy headers.  When nothing is stale this is one stat() per module.

A ``.pyx`` that is newer than its generated C file cannot be translated here;
this is reported on stderr (once) and otherwise ignored.

Exit status: 0 ok, 2 compile failure (harness error, never a violation).
"""

import os
import subprocess
import sys
import sysconfig
from pathlib import Path

REPO_SRC = Path(os.environ.get("VERIF_REPO_SRC", "/repo/src"))


def _ext_suffix():
    return sysconfig.get_config_var("EXT_SUFFIX")


def stale_modules():
    suffix = _ext_suffix()
    out = []
    for src in sorted(REPO_SRC.rglob("*.c")) + sorted(REPO_SRC.rglob("*.cpp")):
        stem = src.with_suffix("")
        pyx = stem.with_suffix(".pyx")
        if not pyx.exists():
            continue
        so = Path(str(stem) + suffix)
        if (not so.exists()) or so.stat().st_mtime < src.stat().st_mtime:
            out.append((src, so))
    return out


def pyx_newer_than_c():
    out = []
    for pyx in sorted(REPO_SRC.rglob("*.pyx")):
        cands = [pyx.with_suffix(".c"), pyx.with_suffix(".cpp")]
        cands = [c for c in cands if c.exists()]
        if not cands:
            out.append(pyx)
            continue
        if max(c.stat().st_mtime for c in cands) < pyx.stat().st_mtime:
            out.append(pyx)
    return out


def compile_one(src, so):
    import numpy

    cc = "g++" if src.suffix == ".cpp" else "gcc"
    cmd = [
        cc,
        "-shared",
        "-fPIC",
        "-O2",
        "-w",
        "-fno-strict-aliasing",
        "-I" + sysconfig.get_paths()["include"],
        "-I" + numpy.get_include(),
        "-I" + str(src.parent),
        "-DNPY_NO_DEPRECATED_API=NPY_1_7_API_VERSION",
        str(src),
        "-o",
        str(so) + ".tmp",
    ]
    r = subprocess.run(cmd, capture_output=True, text=True)
    if r.returncode != 0:
        sys.stderr.write(f"rebuild_ext: compile failed for {src}\n{r.stderr[-3000:]}\n")
        try:
            os.unlink(str(so) + ".tmp")
        except OSError:
            pass
        return False
    os.replace(str(so) + ".tmp", so)
    return True


def main(quiet=True):
    ok = True
    for src, so in stale_modules():
        sys.stderr.write(f"rebuild_ext: rebuilding {so.name} from {src.name}\n")
        ok = compile_one(src, so) and ok
    if not quiet:
        for pyx in pyx_newer_than_c():
            sys.stderr.write(
                f"rebuild_ext: note: {pyx} is newer than its generated C file; "
                "Cython is not installed, the compiled module is used as is\n"
            )
    return 0 if ok else 2


if __name__ == "__main__":
    sys.exit(main(quiet="-v" not in sys.argv))
