#!/bin/bash
# usage: confirm_mutant_tests_c.sh Cxx "<test paths>"   (MUT_TAG selects /tmp/mut${TAG}_Cxx)
# Like confirm_mutant_tests.sh for patches that touch git-ignored generated C/C++: pristine copies of the
# generated sources and modules are kept aside, each patch is applied with patch -p1, the stale module is rebuilt
# with tools/rebuild_ext.py and everything is restored afterwards.
P="$1"; TESTS="$2"; TAG="${MUT_TAG:-}"; WT=/tmp/mut${TAG}_$P
cd $WT || exit 9
git checkout -q -- .
SAVE=$(mktemp -d /tmp/mutsave_XXXX)
(cd $WT/src && find . \( -name "*.c" -o -name "*.cpp" -o -name "*.so" \) -print0 | rsync -a --from0 --files-from=- . $SAVE/)
restore() { rsync -a $SAVE/ $WT/src/; git -C $WT checkout -q -- .; }
run() { PYTHONPATH=$WT/src /venv/bin/python -m pytest -q -p no:cacheprovider -n 4 -rfE $TESTS 2>&1 | grep -E "^(FAILED|ERROR)" | sed 's/ - .*//' | sort; }
run > /tmp/mut${TAG}_${P}_base_ids.txt
echo "$P baseline failing: $(wc -l < /tmp/mut${TAG}_${P}_base_ids.txt)"
for d in /tmp/mut${TAG}_${P}_out/m*/; do
  m=$(basename $d)
  patch -s -p1 -d $WT < "$d/patch.diff" >/dev/null 2>&1 || { echo "$P $m: patch does not apply in worktree"; restore; continue; }
  VERIF_REPO_SRC=$WT/src /venv/bin/python /verif/tools/rebuild_ext.py >/dev/null 2>&1 || { echo "$P $m: rebuild failed"; restore; continue; }
  run > /tmp/mut${TAG}_${P}_${m}_ids.txt
  restore
  if diff -q /tmp/mut${TAG}_${P}_base_ids.txt /tmp/mut${TAG}_${P}_${m}_ids.txt >/dev/null; then echo "$P $m: tests identical to baseline ($(wc -l < /tmp/mut${TAG}_${P}_${m}_ids.txt) failing)"; else echo "$P $m: TEST SET DIFFERS"; diff /tmp/mut${TAG}_${P}_base_ids.txt /tmp/mut${TAG}_${P}_${m}_ids.txt | head -5; fi
done
rm -rf $SAVE
