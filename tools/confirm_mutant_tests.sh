#!/bin/bash
# usage: confirm_mutant_tests.sh Cxx "<test paths>"
# In the scratch worktree /tmp/mut_Cxx: failing-test set with each patch must equal the baseline set.
P="$1"; TESTS="$2"; TAG="${MUT_TAG:-}"; WT=/tmp/mut${TAG}_$P
cd $WT || exit 9
git checkout -q -- . 
run() { PYTHONPATH=$WT/src /venv/bin/python -m pytest -q -p no:cacheprovider -n 4 -rfE $TESTS 2>&1 | grep -E "^(FAILED|ERROR)" | sed 's/ - .*//' | sort; }
run > /tmp/mut${TAG}_${P}_base_ids.txt
echo "$P baseline failing: $(wc -l < /tmp/mut${TAG}_${P}_base_ids.txt)"
for d in /tmp/mut${TAG}_${P}_out/m*/; do
  m=$(basename $d)
  git apply "$d/patch.diff" || { echo "$P $m: patch does not apply in worktree"; continue; }
  run > /tmp/mut${TAG}_${P}_${m}_ids.txt
  git checkout -q -- .
  if diff -q /tmp/mut${TAG}_${P}_base_ids.txt /tmp/mut${TAG}_${P}_${m}_ids.txt >/dev/null; then echo "$P $m: tests identical to baseline ($(wc -l < /tmp/mut${TAG}_${P}_${m}_ids.txt) failing)"; else echo "$P $m: TEST SET DIFFERS"; diff /tmp/mut${TAG}_${P}_base_ids.txt /tmp/mut${TAG}_${P}_${m}_ids.txt | head -5; fi
done
