#!/bin/bash
# usage: try_mutant.sh <Cxx> <patch.diff> [demo.py]
# Applies the patch to /repo, runs the quick check (and the demo), reverts. Prints exit codes.
P="$1"; PATCH="$2"; DEMO="$3"
cd /repo || exit 9
if ! git diff --quiet; then echo "repo dirty, abort"; exit 9; fi
git apply "$PATCH" || { echo "patch does not apply"; exit 9; }
if [ -n "$DEMO" ]; then /venv/bin/python "$DEMO" >/tmp/demo_out.txt 2>&1; echo "demo_with_mutant_exit=$?"; fi
cd /verif; VERIF_SEED=${VERIF_SEED:-1} /venv/bin/python vcheck.py "$P" --tier quick | tail -8; echo "check_exit=${PIPESTATUS[0]}"
cd /repo; git checkout -- . ; git status --short | head -3
if [ -n "$DEMO" ]; then /venv/bin/python "$DEMO" >/dev/null 2>&1; echo "demo_clean_exit=$?"; fi
