#!/venv/bin/python
"""mk_mutprompt_c.py Cxx "<generated C files>" "<test paths>" -> /tmp/mutprompt{TAG}_Cxx.txt
Brief for a fresh mutation sub-agent that edits the *generated C/C++* of a compiled module (Cython itself is
absent).  Contains nothing from /verif except the property text."""
import json, os, sys
pid, cfiles, tests = sys.argv[1], sys.argv[2], sys.argv[3]
p = [json.loads(l) for l in open('/verif/properties.jsonl') if json.loads(l)['id'] == pid][0]
tag = os.environ.get("MUT_TAG", "")
wt = f"/tmp/mut{tag}_{pid}"
files = ", ".join(p['anchors']['files'])
txt = f"""You are helping to evaluate a verification effort by writing realistic *breaking changes* to an open-source library. You work ONLY inside the scratch git worktree {wt} (a checkout of the Python bioinformatics library biotite; run Python as `PYTHONPATH={wt}/src /venv/bin/python`, which makes the worktree's code win over the installed one). Do not read or touch anything under /verif or /repo.

The property that the library is supposed to satisfy ({pid}: {p['title']}):

"{p['statement']}"

Quantified over: {p['quantifier']['text']}
Relevant code: {files}.

The core of this code is written in Cython (.pyx). Cython is NOT installed here, so a .pyx edit alone has no effect. But the C/C++ files that Cython generated from the .pyx files are present in the worktree (git-ignored, next to the .pyx): {cfiles} (paths relative to {wt}/src/biotite). Your changes are made to these GENERATED files - as the C that Cython would have produced had a maintainer made the corresponding small edit in the .pyx. The generated code carries the .pyx source as comments (`/* "biotite/.../x.pyx":123` followed by the source lines), so grep for the .pyx line you want to change and edit the C statement(s) below it. Keep each edit small (a comparison, a bound, an index, an omitted statement, a wrong variable, a narrower C type, a skipped check). Also make the same edit in the .pyx so that the patch reads naturally (it is not compiled, but it documents the intent). Rebuild one module after editing with:

  cd {wt}/src/biotite/<dir> && gcc -shared -fPIC -O2 -w -fno-strict-aliasing -I$(/venv/bin/python -c "import sysconfig;print(sysconfig.get_paths()['include'])") -I$(/venv/bin/python -c "import numpy;print(numpy.get_include())") -I. -DNPY_NO_DEPRECATED_API=NPY_1_7_API_VERSION <name>.c -o <name>.cpython-312-x86_64-linux-gnu.so      (use g++ for a .cpp file)

Before your first edit save pristine copies of the .c/.cpp and .so files you are going to touch (outside the worktree, e.g. /tmp/mut{tag}_{pid}_pristine/), and restore them + rebuild/restore the .so when reverting (the generated files are git-ignored, so `git checkout` does not restore them).

Task: produce THREE different, independent changes ("mutants"), each of which breaks this property while the module still compiles and imports and the existing test suite still passes. Test command: `cd {wt} && PYTHONPATH={wt}/src /venv/bin/python -m pytest -q -p no:cacheprovider -n 4 {tests}` - first record which tests already fail BEFORE your change (some fail in this environment because data files are missing) and make sure your change adds no new failure (compare the sets of failing test ids, e.g. with `-rf`). Each change should look like a plausible refactoring/optimisation/cleanup slip by a maintainer, and should need something specific to manifest - an unusual input, a size or value threshold, a particular combination of options, a multi-step sequence of operations - NOT something ordinary use would expose at once (and nothing that merely crashes on every call). Make the three mutants differ in which sentence/clause of the property they break and in which function they touch.

For each mutant i in 1..3 deliver in /tmp/mut{tag}_{pid}_out/m<i>/:
- patch.diff : a unified diff with paths relative to the worktree root (a/src/biotite/... b/src/biotite/...) covering the generated .c/.cpp file and the .pyx; produce it with `diff -u <pristine file> <edited file> --label a/src/biotite/... --label b/src/biotite/...` for the generated file and `git diff` for the .pyx, concatenated; it must apply with `patch -p1` in a tree that holds the pristine files,
- demo.py : a small standalone program that exits 0 on the original code and exits 1 (printing what went wrong) with the change applied and the module rebuilt, when run as `PYTHONPATH=<tree>/src /venv/bin/python demo.py`,
- meta.json : {{"property": "{pid}", "breaks": "<which sentence>", "needs": "<what specific input/sequence is needed to manifest>", "files": [...], "tests_run": "<command>", "tests_result": "<failing set identical to baseline: N failed / M passed>"}}.
Work on one mutant at a time: edit, rebuild, run tests, run demo (must exit 1), restore the pristine files and .so, run demo again (must exit 0). Leave the worktree with pristine generated files, pristine .so files and no uncommitted changes at the end. Keep total effort moderate (aim to finish within about 40-50 minutes). Final message: a short list of the three mutants (one line each).
"""
open(f"/tmp/mutprompt{tag}_{pid}.txt", "w").write(txt)
print(f"/tmp/mutprompt{tag}_{pid}.txt")
