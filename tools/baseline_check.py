#!/venv/bin/python
"""Run the repository's pinned test-suite (optionally a subset) and compare with
/root/.vp/BASELINE.json: every test in stable_pass that was run must still pass.

usage: baseline_check.py [-n WORKERS] [pytest paths ...]
"""
import json
import subprocess
import sys
import tempfile
import xml.etree.ElementTree as ET
from pathlib import Path


def main():
    args = sys.argv[1:]
    n = "6"
    if args[:1] == ["-n"]:
        n = args[1]
        args = args[2:]
    base = json.load(open("/root/.vp/BASELINE.json"))
    stable = set(base["stable_pass"])
    out = Path(tempfile.mkdtemp(prefix="baseline_")) / "junit.xml"
    cmd = [
        "/venv/bin/python", "-m", "pytest", "-q", "-p", "no:cacheprovider", "--timeout=900",
        "--continue-on-collection-errors", f"--junitxml={out}", "-n", n,
    ] + args
    r = subprocess.run(cmd, cwd="/repo", capture_output=True, text=True)
    print(r.stdout[-600:])
    tree = ET.parse(out)
    passed, failed = set(), set()
    for tc in tree.iter("testcase"):
        name = f"{tc.get('classname')}::{tc.get('name')}"
        bad = any(ch.tag in ("failure", "error") for ch in tc)
        skipped = any(ch.tag == "skipped" for ch in tc)
        if bad:
            failed.add(name)
        elif not skipped:
            passed.add(name)
    ran = passed | failed
    lost = sorted(t for t in stable if t in failed or (not args and t not in passed))
    print(f"ran {len(ran)}, passed {len(passed)}, failed {len(failed)}; stable_pass tests no longer passing: {len(lost)}")
    for t in lost[:40]:
        print("  LOST", t)
    return 1 if lost else 0


if __name__ == "__main__":
    sys.exit(main())
