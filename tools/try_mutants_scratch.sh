#!/bin/bash
# usage: try_mutants_scratch.sh <outdir-prefix e.g. /tmp/mut3_C01_out> Cxx
# Like try_mutants.sh but applies each patch to a scratch copy of /repo/src (PYTHONPATH override), so /repo stays untouched.
OUT="$1"; P="$2"
for d in $OUT/m*/; do
  m=$(basename $d)
  ROOT=$(mktemp -d /tmp/mutroot_XXXX)
  cp -r /repo/src $ROOT/src
  if ! patch -s -p1 -d $ROOT < "$d/patch.diff" >/dev/null 2>&1; then echo "$P $m: PATCH DOES NOT APPLY"; rm -rf $ROOT; continue; fi
  PYTHONPATH=$ROOT/src /venv/bin/python "$d/demo.py" >/dev/null 2>&1; dm=$?
  /venv/bin/python "$d/demo.py" >/dev/null 2>&1; dc=$?
  cd /verif; out=$(VERIF_EVIDENCE_DIR=/tmp/verif_scratch_evidence PYTHONPATH=$ROOT/src VERIF_SEED=${VERIF_SEED:-1} /venv/bin/python vcheck.py "$P" --tier quick 2>&1); ce=$?
  rm -rf $ROOT
  clauses=$(echo "$out" | grep -o "^  \[[a-z_0-9]*\] clause=[a-z_A-Z0-9]*" | sort -u | tr '\n' ';')
  echo "$P $m: demo_mutant=$dm demo_clean=$dc check_exit=$ce  $clauses"
done
