#!/bin/bash
# usage: try_mutants_scratch_c.sh <outdir e.g. /tmp/mut7_C02_out> Cxx
# For changes to the *generated C/C++* (git-ignored): applies each patch to a scratch copy of /repo/src
# (mtimes preserved, so only the patched module is stale), rebuilds the stale module there with
# tools/rebuild_ext.py (VERIF_REPO_SRC) and runs demo + quick check with PYTHONPATH pointing at the copy.
OUT="$1"; P="$2"
for d in $OUT/m*/; do
  m=$(basename $d)
  ROOT=$(mktemp -d /tmp/mutroot_XXXX)
  cp -a /repo/src $ROOT/src
  if ! patch -s -p1 -d $ROOT < "$d/patch.diff" >/dev/null 2>&1; then echo "$P $m: PATCH DOES NOT APPLY"; rm -rf $ROOT; continue; fi
  if ! VERIF_REPO_SRC=$ROOT/src /venv/bin/python /verif/tools/rebuild_ext.py >/dev/null 2>$ROOT/rebuild.err; then echo "$P $m: REBUILD FAILED $(tail -3 $ROOT/rebuild.err)"; rm -rf $ROOT; continue; fi
  PYTHONPATH=$ROOT/src /venv/bin/python "$d/demo.py" >/dev/null 2>&1; dm=$?
  /venv/bin/python "$d/demo.py" >/dev/null 2>&1; dc=$?
  cd /verif; out=$(VERIF_REPO_SRC=$ROOT/src VERIF_EVIDENCE_DIR=/tmp/verif_scratch_evidence PYTHONPATH=$ROOT/src VERIF_SEED=${VERIF_SEED:-1} /venv/bin/python vcheck.py "$P" --tier quick 2>&1); ce=$?
  rm -rf $ROOT
  clauses=$(echo "$out" | grep -o "^  \[[a-z_0-9]*\] clause=[a-z_A-Z0-9]*" | sort -u | tr '\n' ';')
  echo "$P $m: demo_mutant=$dm demo_clean=$dc check_exit=$ce  $clauses"
done
