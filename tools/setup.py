#!/venv/bin/python
"""MANIFEST.setup_cmd: offline preparation of the check machinery.

1. hypothesis must import under /venv (installed from the offline wheelhouse if missing)
2. stale compiled extension modules are rebuilt from the generated C
3. the synthetic Chemical Component Dictionary used by C04/C07/C16/C18 is generated
"""
import importlib
import subprocess
import sys
from pathlib import Path

ROOT = Path(__file__).resolve().parent.parent
sys.path.insert(0, str(ROOT))
sys.path.insert(0, str(ROOT / "tools"))


def ensure(pkg):
    try:
        importlib.import_module(pkg)
        return True
    except ImportError:
        r = subprocess.run(
            [sys.executable, "-m", "pip", "install", "--no-index", "--find-links", "/opt/veriftools/wheels", pkg]
        )
        return r.returncode == 0


def main():
    ok = ensure("hypothesis")
    import rebuild_ext

    ok = (rebuild_ext.main(quiet=False) == 0) and ok
    try:
        from fixtures import make_ccd

        make_ccd.ensure()
    except ImportError:
        pass
    import biotite  # noqa: F401

    print("setup ok" if ok else "setup FAILED")
    return 0 if ok else 2


if __name__ == "__main__":
    sys.exit(main())
