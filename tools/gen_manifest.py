#!/venv/bin/python
"""Regenerate /verif/MANIFEST.json from the property modules that exist.

A property is claimed iff props/cXX_*.py exists and its id is in CLAIMED below.
Everything else is listed under not_applicable with a reason.
"""
import json
import sys
from pathlib import Path

ROOT = Path(__file__).resolve().parent.parent

TEXT = {
    "C01": (
        "4/C01",
        "op-list histories vs list-of-atoms reference model (Hypothesis)",
        "Generated operation histories over atom arrays/stacks are replayed on the real objects and on a plain "
        "list-of-atoms model; after every step lengths/depths, all annotations, coordinates, boxes and bonds (by atom "
        "identity) are compared and copies are probed for shared state.",
    ),
    "C02": (
        "4/C02",
        "op-list histories vs dict-of-unordered-pairs model; out-of-range indices in a sacrificial subprocess",
        "Generated construction inputs and operation histories on BondList are compared against a dict model through "
        "every public view after every step; out-of-range atom indices must raise IndexError and leave the list intact "
        "(process exit status observed through a forked child).",
    ),
    "C03": (
        "4/C03",
        "round-trip, reference-model and exhaustive byte/codon enumeration (Hypothesis + enumeration)",
        "encode/decode round trips over generated alphabets, rejection of every out-of-alphabet byte and out-of-range "
        "code, list-model semantics of Sequence objects, complement table, codon-by-codon translation and a naive ORF "
        "scanner as oracles.",
    ),
    "C04": (
        "4/C04",
        "round-trip + differential (CIF vs BinaryCIF vs compressed) on generated structures with a synthetic CCD",
        "Generated structures are written to CIF, BinaryCIF and compressed BinaryCIF, read back and compared field by "
        "field; model selection and altloc policies are compared with a small reference filter.",
    ),
    "C05": (
        "4/C05",
        "round-trip of generated arrays through generated encoding chains; tolerance oracle for compress()",
        "decode(encode(x)) == x over generated arrays and grammar-built encoding chains, half-step tolerance for "
        "fixed point, relative tolerance for compress(), reject-or-lossless for unrepresentable values, "
        "serialisation round trips of encodings/columns/files.",
    ),
    "C06": (
        "4/C06",
        "round-trip of generated string tables with awkward tokens at every position; container histories vs dict model",
        "String tables over an alphabet that over-weights CIF meta characters are serialised and re-parsed; "
        "File/Block/Category containers of both flavours are driven by generated mapping-operation histories against "
        "a nested dict model, before and after lazy parsing.",
    ),
    "C07": (
        "4/C07",
        "round-trip + fixed-column grammar on generated structures at the column limits; hybrid-36 inverse laws",
        "Structures with values on and around every PDB column limit are written and re-read; every ATOM/HETATM line is "
        "matched against a strict column grammar; over-limit input must be refused; hybrid-36 encode/decode are "
        "checked as mutual inverses on boundary and random integers.",
    ),
    "C08": (
        "4/C08",
        "differential against brute-force enumeration of all alignments and an independent 3-state DP",
        "align_optimal is compared with the maximum over all alignments (brute force for short sequences, reference "
        "DP for longer ones) under an independently written scoring function; every returned trace is validated and "
        "re-scored.",
    ),
    "C09": (
        "4/C09",
        "validity + re-scoring + upper bound / equality against the C08 reference on generated bands, seeds, thresholds",
        "align_banded, align_local_gapped and align_local_ungapped results are validated, re-scored, bounded by the "
        "reference optimum and required to reach it when band/threshold cannot bind.",
    ),
    "C10": (
        "4/C10",
        "differential against naive k-mer matching and literal selector definitions",
        "Matches, counts and lookups of KmerTable/BucketKmerTable built by every constructor are compared, as sets of "
        "triples, with a naive Python matcher; selectors are compared with literal re-implementations of their "
        "definitions.",
    ),
    "C11": (
        "4/C11",
        "round-trip laws over generated traces (strings, CIGAR, FASTA) + invariants of align_multiple",
        "Generated valid traces are converted to gapped strings, code/symbol matrices, CIGAR and FASTA and back; "
        "helper functions are compared with column loops; align_multiple output is checked against the MSA "
        "invariants.",
    ),
    "C12": (
        "4/C12",
        "write/parse round trips of generated FASTA/FASTQ/GenBank/GFF3 content; edit histories vs dict/list model",
        "Generated entries, scores, features and qualifiers are written and parsed again; file objects are edited "
        "through their mapping/list interface and compared with a model and with a re-parse of their own text after "
        "every step.",
    ),
    "C13": (
        "4/C13",
        "per-base set model as oracle over generated annotations, slices and features (Hypothesis)",
        "Annotation and AnnotatedSequence slicing, feature indexing/assignment, reverse complement and copying are "
        "compared with a model in which every location is the set of positions it covers.",
    ),
    "C14": (
        "4/C14",
        "differential against float64 brute-force distances with a three-valued tolerance band",
        "CellList queries (index/mask form, scalar/vector radii, selections, periodic boxes) are compared with brute "
        "force minimum-image distances; pairs inside the rounding band are not decided and are counted.",
    ),
    "C15": (
        "4/C15",
        "textbook formulas in float64, rigid-motion metamorphic relations, lattice-vector integrality oracle",
        "distance/angle/dihedral vs formulas and under random rigid motions; displacement/move_inside_box/remove_pbc "
        "must differ from the input by integer lattice combinations and be minimal; conversions are inverse.",
    ),
    "C16": (
        "4/C16",
        "float64 Kabsch reference + perturbation search + matrix-form agreement",
        "superimpose() output is checked for a proper rotation, compared with a float64 Kabsch reference RMSD and "
        "with random perturbations; transformation application, 4x4 form and stack broadcasting are cross-checked.",
    ),
    "C17": (
        "4/C17",
        "per-atom recomputation of segment boundaries; union-find for molecules; subprocess for long chains",
        "Residue/chain starts and every derived view are recomputed by a per-atom loop; molecules are compared with "
        "union-find components; very long bond paths run in a forked child whose exit status is part of the oracle.",
    ),
    "C18": (
        "4/C18",
        "round-trip through MOL/SDF (V2000/V3000) and RDKit on generated molecules; fixed-column grammar for V2000",
        "Generated molecules, headers and metadata are written and re-read; V2000 lines are matched against column "
        "regexes; version switching at 1000 atoms/bonds; RDKit bridge round trip with conformers.",
    ),
    "C19": (
        "4/C19",
        "invariants of UPGMA/NJ on generated matrices; additive-matrix recovery; Newick/copy/binary round trips",
        "Every index exactly one leaf, ultrametricity and average-linkage heights recomputed from the matrix, NJ "
        "recovers additive matrices, trees keep distances and topology through Newick, copy and as_binary; distance "
        "queries equal explicit path sums.",
    ),
    "C20": (
        "4/C20",
        "generated call histories x fault behaviours of fake executables vs a life-cycle reference machine",
        "Wrappers (in-process Application/WebApp, LocalApp, the MSA wrappers, Tantan, RNAfold, RNAplot, RNAalifold, "
        "DSSP) are driven with fake tools (success, non-zero exit, garbage, hang, missing binary); each call must "
        "succeed or raise AppStateError exactly as the documented life cycle says, and after every terminal state "
        "clean-up count, cwd, temp files and child liveness are observed.",
    ),
}


def main():
    props = [json.loads(l) for l in open(ROOT / "properties.jsonl")]
    checks = []
    na = []
    for p in props:
        pid = p["id"]
        mods = sorted((ROOT / "props").glob(f"{pid.lower()}_*.py"))
        if not mods:
            na.append({"property_id": pid, "reason": "check not built yet (planned, see DESIGN.md section 4)"})
            continue
        ref, tech, text = TEXT[pid]
        checks.append(
            {
                "property_id": pid,
                "quick_cmd": f"/venv/bin/python vcheck.py {pid} --tier quick",
                "thorough_cmd": f"/venv/bin/python vcheck.py {pid} --tier thorough",
                "evidence_file": f"/verif/evidence/{pid}.json",
                "replay_cmd_template": f"/venv/bin/python vcheck.py {pid} --replay {{path}}",
                "engine": "hypothesis",
                "level_claimed": {
                    "category": "exploration",
                    "text": text
                    + " Exploration level: the property held on every generated case; the evidence file reports how "
                    "many cases, how many distinct non-trivial ones and the label distribution.",
                    "design_ref": "DESIGN.md section " + ref,
                },
                "level_note": "Trusted: the reference models/oracles under /verif/props and /verif/models, NumPy, "
                "Hypothesis. Compiled extensions are exercised as built from the generated C in /repo/src (Cython is "
                "absent, a .pyx-only change cannot be compiled). Known findings listed in known_findings.json are "
                "excluded by construction and reproduced once per run.",
                "technique": "property-based testing: " + tech,
            }
        )
    manifest = {
        "version": 1,
        "setup_cmd": "/venv/bin/python tools/setup.py",
        "hooks": {
            "guard": "BIOTITE_VERIF",
            "enable": "no hook is needed: biotite is an editable install and every observation is made through the "
            "public API; checks call tools/rebuild_ext.py to recompile stale extension modules",
            "baseline_off_cmd": "cd /repo && /venv/bin/python -m pytest -ra -q -p no:cacheprovider --timeout=900 "
            "--continue-on-collection-errors",
            "source_commits": [],
            "add_only": True,
        },
        "engines": [
            {
                "name": "hypothesis",
                "path": "/verif/vlib",
                "serves_properties": [c["property_id"] for c in checks],
                "kind_free_text": "Hypothesis 6.168 strategies producing plain-data cases, sharded over 16 seeded "
                "worker processes, plus finite enumerations; shrunk failures become JSON replay files",
            }
        ],
        "checks": checks,
        "notes": "vcheck.py <id> --tier quick|thorough; VERIF_SEED selects the seed. Exit 0 held / 1 VIOLATION / 2 "
        "harness error. Known findings and fixed defects: known_findings.json. Seeded breaking changes used to "
        "validate the checks: seeded/.",
        "not_applicable": na,
    }
    with open(ROOT / "MANIFEST.json", "w") as f:
        json.dump(manifest, f, indent=1)
    print(f"{len(checks)} checks claimed, {len(na)} not claimed")


if __name__ == "__main__":
    main()
