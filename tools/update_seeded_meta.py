#!/venv/bin/python
"""update_seeded_meta.py <log of tools/rerun_seeded.sh runs>
Records in seeded/<id>/meta.json which sub-checks / clauses of the *current* checks report each stored change
(field caught_by_final_run); the older field caught_by keeps the history (e.g. "missed at first: ...")."""
import json, re, sys
from pathlib import Path
ROOT = Path(__file__).resolve().parent.parent
n = 0
for line in open(sys.argv[1]):
    m = re.match(r"^(C\d\d-\w+): (caught|MISSED)(.*)$", line.strip())
    if not m:
        continue
    mid, verdict, rest = m.groups()
    mp = ROOT / "seeded" / mid / "meta.json"
    if not mp.exists():
        continue
    meta = json.load(open(mp))
    pairs = re.findall(r"\[([a-z_0-9]+)\] clause=([A-Za-z_0-9]+)", rest)
    by_sub = {}
    for sub, clause in pairs:
        by_sub.setdefault(sub, []).append(clause)
    text = "; ".join(f"{sub} / {', '.join(cl)}" for sub, cl in by_sub.items())
    meta["caught_by_final_run"] = text if verdict == "caught" else "MISSED"
    json.dump(meta, open(mp, "w"), indent=1)
    n += 1
print(n, "meta files updated")
