#!/venv/bin/python
"""promote_findings.py Cxx [id=commit ...] [drop=id ...]
Move the entries of known_findings.d/Cxx.json into known_findings.json.
pending_fix entries named id=commit become status fixed (fixed_in=commit)."""
import json, sys
from pathlib import Path
ROOT = Path(__file__).resolve().parent.parent
prop = sys.argv[1]
fixed = dict(a.split("=") for a in sys.argv[2:] if not a.startswith("drop="))
drop = {a[5:] for a in sys.argv[2:] if a.startswith("drop=")}
frag = ROOT / "known_findings.d" / f"{prop}.json"
main = ROOT / "known_findings.json"
data = json.load(open(main))
have = {e["id"] for e in data["findings"]}
for e in json.load(open(frag))["findings"]:
    if e["id"] in drop:
        continue
    if e["id"] in have:
        data["findings"] = [x for x in data["findings"] if x["id"] != e["id"]]
    if e["status"] == "pending_fix":
        if e["id"] not in fixed:
            sys.exit(f"{e['id']} is pending_fix but no commit given")
        e["status"] = "fixed"
        e["fixed_in"] = fixed[e["id"]]
        e["line"] = f"fixed: property={prop} {fixed[e['id']]} {e['what']}"
        e.pop("proposed_fix", None)
    data["findings"].append(e)
json.dump(data, open(main, "w"), indent=1)
frag.unlink()
print("ok", prop, [e["id"] + ":" + e["status"] for e in data["findings"] if e["property"] == prop])
