"""
One shard of a property check.  Runs in its own fresh process (spawned by
vlib.runner) and writes a JSON result file.
"""

import faulthandler
import importlib
import json
import os
import sys
import time
import traceback
from collections import Counter
from pathlib import Path

from . import findings
from .core import Outcome, canonical, case_hash, dumps, strict_json

ROOT = Path(__file__).resolve().parent.parent
MAX_SAMPLES = 4
SHRINK_BUDGET_S = {"quick": 45.0, "thorough": 240.0}


class HarnessError(Exception):
    pass


class _Violation(Exception):
    pass


class _DeadlineReached(BaseException):
    """Raised from the test body once the soft deadline has passed.  Not an ``Exception``: Hypothesis
    does not treat it as a failing example (no shrinking, no replay) and it ends the run of the
    sub-check at once - otherwise the remaining examples would still be *generated*, which for the
    larger strategies costs more than running them."""


def load_module(prop):
    props_dir = ROOT / "props"
    for p in sorted(props_dir.glob(f"{prop.lower()}_*.py")):
        return importlib.import_module(f"props.{p.stem}")
    raise HarnessError(f"no module for {prop} in {props_dir}")


def _attributable_to_biotite(tb):
    """True if any frame of the traceback lies inside the code under test."""
    while tb is not None:
        fn = tb.tb_frame.f_code.co_filename.replace("\\", "/")
        if "/biotite/" in fn and "/verif/" not in fn:
            return True
        tb = tb.tb_next
    return False


def execute(run, case):
    """Run one case; an exception escaping from biotite code is a violation
    (clause unexpected_exception), one raised by the harness itself is a
    harness error."""
    try:
        out = run(case)
    except (KeyboardInterrupt, SystemExit, _DeadlineReached):
        raise
    except BaseException as e:  # noqa: BLE001
        mod = type(e).__module__ or ""
        if mod.startswith("hypothesis"):
            raise
        if isinstance(e, MemoryError) or not _attributable_to_biotite(e.__traceback__):
            raise HarnessError(
                "harness exception:\n" + "".join(traceback.format_exception(e))
            ) from e
        out = Outcome()
        tb = traceback.extract_tb(e.__traceback__)
        where = ""
        for fr in reversed(tb):
            if "/biotite/" in fr.filename.replace("\\", "/"):
                where = f"{Path(fr.filename).name}:{fr.lineno} in {fr.name}"
                break
        out.fail("unexpected_exception", f"{type(e).__name__}: {e} [{where}]")
    if not isinstance(out, Outcome):
        raise HarnessError(f"run() returned {type(out)}")
    return out


class SubStats:
    def __init__(self, name, rule="", clauses="", exhaustive=False):
        self.name = name
        self.rule = rule
        self.clauses = clauses
        self.exhaustive = exhaustive
        self.evaluations = 0
        self.invalid = 0
        self.nontrivial = set()
        self.labels = Counter()
        self.excluded = Counter()
        self.known_hits = Counter()
        self.ambiguous = 0
        self.samples = []
        self.failures = []  # dicts
        self.inconclusive = False
        self.wall = 0.0

    def account(self, case, out, h=None):
        self.evaluations += 1
        if out.invalid:
            self.invalid += 1
        for lab in out.labels:
            self.labels[lab] += 1
        for ex in out.excluded:
            self.excluded[ex] += 1
        self.ambiguous += out.ambiguous
        if out.nontrivial and not out.invalid:
            h = h or case_hash(self.name, case)
            if h not in self.nontrivial:
                self.nontrivial.add(h)
                if len(self.samples) < MAX_SAMPLES:
                    self.samples.append(strict_json(case, 1500))

    def to_json(self):
        return {
            "name": self.name,
            "rule": self.rule,
            "clauses": self.clauses,
            "exhaustive": self.exhaustive,
            "evaluations": self.evaluations,
            "invalid": self.invalid,
            "nontrivial": sorted(self.nontrivial),
            "labels": dict(self.labels),
            "excluded": dict(self.excluded),
            "known_hits": dict(self.known_hits),
            "ambiguous": self.ambiguous,
            "samples": self.samples,
            "failures": self.failures,
            "inconclusive": self.inconclusive,
            "wall": self.wall,
        }


class Worker:
    def __init__(self, prop, shard, nshards, tier, seed, deadline, casefile):
        self.prop = prop
        self.shard = shard
        self.nshards = nshards
        self.tier = tier
        self.seed = seed
        self.deadline = deadline
        self.casefd = os.open(casefile, os.O_WRONLY | os.O_CREAT | os.O_TRUNC, 0o644)
        self.mod = load_module(prop)
        self.predicates = getattr(self.mod, "FINDINGS", {})

    # ---- crash attribution
    def note_case(self, sub_name, case):
        data = dumps({"sub": sub_name, "case": case}).encode("utf-8", "surrogatepass")
        os.ftruncate(self.casefd, 0)
        os.pwrite(self.casefd, data, 0)

    # ---- split violations into new ones and known findings
    def triage(self, sub_name, case, out, stats):
        new = []
        for clause, msg in out.violations:
            fid = findings.match_open(self.prop, self.predicates, sub_name, case, clause, msg)
            if fid is not None:
                stats.known_hits[fid] += 1
            else:
                new.append((clause, msg))
        return new

    # ---- hypothesis driven sub-check
    def drive_sub(self, sub, index):
        import hypothesis
        from hypothesis import HealthCheck, Phase, Verbosity, given, settings
        from hypothesis.errors import FailedHealthCheck, Flaky, Unsatisfiable

        total = sub.quick if self.tier == "quick" else sub.thorough
        # the per-sub budgets were calibrated to ~10-20 s per property on 16 idle cores;
        # the quick tier runs twice that by default (still well below a minute)
        scale = float(os.environ.get("VERIF_SCALE", "2" if self.tier == "quick" else "1"))
        n = max(1, int(total * scale) // self.nshards)
        stats = SubStats(sub.name, sub.rule, sub.clauses)
        state = {"first_fail_t": None, "last": None}
        shrink_budget = SHRINK_BUDGET_S[self.tier]
        seed = (self.seed * 1000 + self.shard) * 131 + index
        t0 = time.time()

        def body(case):
            now = time.time()
            if state["first_fail_t"] is not None:
                if now - state["first_fail_t"] > shrink_budget:
                    return  # stop shrinking: every further candidate "passes"
            elif now > self.deadline:
                stats.inconclusive = True
                raise _DeadlineReached()
            case = canonical(case)
            self.note_case(sub.name, case)
            out = execute(sub.run, case)
            if state["first_fail_t"] is None:
                stats.account(case, out)
            new = self.triage(sub.name, case, out, stats)
            if new:
                if state["first_fail_t"] is None:
                    state["first_fail_t"] = time.time()
                state["last"] = (case, new)
                raise _Violation(new[0][0])

        if sub.stateful:
            raise HarnessError("stateful subs are expressed as op-list strategies")
        test = given(sub.strategy(self.tier))(body)
        test = settings(
            max_examples=n,
            database=None,
            deadline=None,
            derandomize=False,
            report_multiple_bugs=False,
            phases=[Phase.generate, Phase.shrink],
            suppress_health_check=[HealthCheck.too_slow, HealthCheck.data_too_large],
            verbosity=Verbosity.quiet,
        )(test)
        test = hypothesis.seed(seed)(test)
        if time.time() > self.deadline:
            stats.inconclusive = True
            return stats
        try:
            test()
        except _Violation:
            pass
        except _DeadlineReached:
            stats.inconclusive = True
        except Flaky:
            if state["last"] is None:
                raise HarnessError("hypothesis reported Flaky without a recorded failure")
        except (FailedHealthCheck, Unsatisfiable) as e:
            raise HarnessError(f"hypothesis health check in {sub.name}: {e}") from e
        except HarnessError:
            raise
        except BaseException as e:  # noqa: BLE001
            if state["last"] is None:
                raise HarnessError(
                    f"unexpected exception from hypothesis in {sub.name}:\n"
                    + "".join(traceback.format_exception(e))
                ) from e
        if state["last"] is not None:
            case, new = state["last"]
            # A violation is reported only if the shrunk case fails again when it is run once more on its
            # own: a verdict that depends on scheduling (child processes, load) is not a violation of the
            # property.  Unreproducible failures are counted in the evidence.
            self.note_case(sub.name, case)
            again = self.triage(sub.name, case, execute(sub.run, case), SubStats("confirm"))
            if not again:
                stats.labels["unreproducible_failure_not_reported"] += 1
                stats.inconclusive = True
                state["last"] = None
        if state["last"] is not None:
            case, new = state["last"]
            stats.failures.append(
                {
                    "sub": sub.name,
                    "case": case,
                    "clause": new[0][0],
                    "message": new[0][1],
                    "all": [list(v) for v in new[:10]],
                    "seed": seed,
                }
            )
        stats.wall = time.time() - t0
        return stats

    # ---- finite enumeration
    def drive_enum(self, en):
        stats = SubStats(en.name, en.rule, en.clauses, exhaustive=en.exhaustive)
        t0 = time.time()
        if self.tier not in en.tiers:
            return None
        seen_clauses = set()
        for i, case in enumerate(en.cases(self.tier)):
            if i % self.nshards != self.shard:
                continue
            if time.time() > self.deadline:
                stats.inconclusive = True
                stats.exhaustive = False
                break
            case = canonical(case)
            self.note_case(en.name, case)
            out = execute(en.run, case)
            stats.account(case, out)
            new = self.triage(en.name, case, out, stats)
            if new and new[0][0] not in seen_clauses and len(stats.failures) < 5:
                seen_clauses.add(new[0][0])
                stats.failures.append(
                    {
                        "sub": en.name,
                        "case": case,
                        "clause": new[0][0],
                        "message": new[0][1],
                        "all": [list(v) for v in new[:10]],
                        "seed": None,
                    }
                )
        stats.wall = time.time() - t0
        return stats

    # ---- saved cases
    def runner_for(self, sub_name):
        for s in list(getattr(self.mod, "SUBS", [])) + list(getattr(self.mod, "ENUMS", [])):
            if s.name == sub_name:
                return s.run
        raise HarnessError(f"{self.prop}: no sub-check named {sub_name}")

    def replay_saved(self):
        """Regression cases (must pass) and known-finding reproducers."""
        stats = SubStats("replay", "saved regression cases and known-finding reproducers", "")
        known_lines = []
        rdir = ROOT / "replays" / self.prop
        for path in sorted(rdir.glob("*.json")):
            with open(path) as f:
                rec = json.load(f)
            case = rec["case"]
            self.note_case(rec["sub"], case)
            out = execute(self.runner_for(rec["sub"]), case)
            stats.account(case, out)
            new = self.triage(rec["sub"], case, out, stats)
            if new:
                stats.failures.append(
                    {
                        "sub": rec["sub"],
                        "case": case,
                        "clause": new[0][0],
                        "message": new[0][1],
                        "all": [list(v) for v in new[:10]],
                        "seed": None,
                        "replay_path": str(path),
                    }
                )
        for e in findings.entries(self.prop, "open"):
            path = rdir / "known" / f"{e['id']}.json"
            if not path.exists():
                raise HarnessError(f"open finding {e['id']} has no reproducer {path}")
            with open(path) as f:
                rec = json.load(f)
            case = rec["case"]
            self.note_case(rec["sub"], case)
            out = execute(self.runner_for(rec["sub"]), case)
            stats.evaluations += 1
            still = False
            for clause, msg in out.violations:
                pred = self.predicates.get(e["match"])
                if pred is not None and pred(rec["sub"], case, clause, msg):
                    still = True
                else:
                    # the reproducer violates something the finding does not list
                    stats.failures.append(
                        {
                            "sub": rec["sub"],
                            "case": case,
                            "clause": clause,
                            "message": msg,
                            "all": [[clause, msg]],
                            "seed": None,
                            "replay_path": str(path),
                        }
                    )
            if still:
                known_lines.append({"id": e["id"], "what": e["what"]})
        return stats, known_lines

    def main(self, checkpoint=None):
        """checkpoint(result): called after every finished sub-check, so that a shard that is killed at
        the wall limit leaves what it has finished behind."""
        if hasattr(self.mod, "setup"):
            self.mod.setup()
        result = {"shard": self.shard, "subs": [], "known_lines": [], "error": None, "partial": True}
        checkpoint = checkpoint or (lambda r: None)
        only = os.environ.get("VERIF_ONLY_SUB")
        if self.shard == 0 and not only:
            st, known = self.replay_saved()
            result["subs"].append(st.to_json())
            result["known_lines"] = known
            checkpoint(result)
        errors = []
        for en in getattr(self.mod, "ENUMS", []):
            if only and en.name != only:
                continue
            try:
                st = self.drive_enum(en)
            except HarnessError as e:
                errors.append(f"[{en.name}] {e}")
                continue
            if st is not None:
                result["subs"].append(st.to_json())
                checkpoint(result)
        subs = list(enumerate(getattr(self.mod, "SUBS", [])))
        # rotate the order per shard: under CPU contention (soft deadline) every
        # sub-check is then still covered by some shards instead of the last ones starving
        if subs:
            k = self.shard % len(subs)
            subs = subs[k:] + subs[:k]
        for i, sub in subs:
            if only and sub.name != only:
                continue
            try:
                st = self.drive_sub(sub, i)
            except HarnessError as e:
                errors.append(f"[{sub.name}] {e}")
                continue
            result["subs"].append(st.to_json())
            checkpoint(result)
        if errors:
            result["error"] = "\n".join(errors)
        result["partial"] = False
        return result


def worker_main(argv):
    faulthandler.enable()
    prop, shard, nshards, tier, seed, deadline, outfile, casefile = argv
    sys.path.insert(0, str(ROOT))
    result = None
    try:
        w = Worker(prop, int(shard), int(nshards), tier, int(seed), float(deadline), casefile)

        def checkpoint(res):
            with open(outfile + ".part.tmp", "w") as f:
                json.dump(res, f)
            os.replace(outfile + ".part.tmp", outfile + ".part")

        result = w.main(checkpoint)
        code = 2 if result.get("error") else 0
    except HarnessError as e:
        result = {"shard": int(shard), "subs": [], "known_lines": [], "error": str(e)}
        code = 2
    except BaseException as e:  # noqa: BLE001
        result = {
            "shard": int(shard),
            "subs": [],
            "known_lines": [],
            "error": "worker crashed:\n" + "".join(traceback.format_exception(e)),
        }
        code = 2
    with open(outfile + ".tmp", "w") as f:
        json.dump(result, f)
    os.replace(outfile + ".tmp", outfile)
    sys.stdout.flush()
    sys.stderr.flush()
    os._exit(code)
