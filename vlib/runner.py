"""
Parent process of a property check: rebuilds stale extensions, spawns the
shards, merges their results, writes the evidence file, prints the
VIOLATION / KNOWN-FINDING lines and decides the exit status.

Exit codes: 0 held on everything explored, 1 violation, 2 harness error.
"""

import json
import os
import signal
import subprocess
import sys
import tempfile
import time
from collections import Counter
from pathlib import Path

from .core import dumps, strict_json

ROOT = Path(__file__).resolve().parent.parent
NSHARDS = int(os.environ.get("VERIF_SHARDS", "16"))
BUDGET_S = {"quick": 75.0, "thorough": 2400.0}
HARD_EXTRA_S = {"quick": 120.0, "thorough": 900.0}


def _save_failure(prop, fail):
    d = ROOT / "replays" / prop / "found"
    d.mkdir(parents=True, exist_ok=True)
    import hashlib

    text = dumps({"sub": fail["sub"], "case": fail["case"]})
    h = hashlib.sha1(text.encode("utf-8", "surrogatepass")).hexdigest()[:12]
    path = d / f"{h}.json"
    rec = {
        "property": prop,
        "sub": fail["sub"],
        "case": fail["case"],
        "clause": fail["clause"],
        "message": fail["message"],
        "all": fail.get("all"),
        "seed": fail.get("seed"),
    }
    with open(path, "w") as f:
        f.write(dumps(rec))
    return path


def replay(prop, path):
    """Run one saved case directly (no Hypothesis)."""
    sys.path.insert(0, str(ROOT))
    from . import findings
    from .worker import execute, load_module

    mod = load_module(prop)
    if hasattr(mod, "setup"):
        mod.setup()
    with open(path) as f:
        rec = json.load(f)
    run = None
    for s in list(getattr(mod, "SUBS", [])) + list(getattr(mod, "ENUMS", [])):
        if s.name == rec["sub"]:
            run = s.run
    if run is None:
        print(f"no sub-check {rec['sub']} in {prop}", file=sys.stderr)
        return 2
    out = execute(run, rec["case"])
    preds = getattr(mod, "FINDINGS", {})
    code = 0
    for clause, msg in out.violations:
        fid = findings.match_open(prop, preds, rec["sub"], rec["case"], clause, msg)
        if fid:
            print(f"KNOWN-FINDING: property={prop} {fid} clause={clause}: {msg}")
        else:
            print(f"  clause={clause}: {msg}")
            code = 1
    if code:
        print(f"VIOLATION property={prop} replay={path}")
    else:
        print(f"replay of {path}: no violation (labels={out.labels})")
    return code


def run_check(prop, tier, seed):
    t0 = time.time()
    # 1. rebuild compiled modules whose generated C changed
    sys.path.insert(0, str(ROOT / "tools"))
    import rebuild_ext

    if rebuild_ext.main() != 0:
        print("harness error: extension rebuild failed", file=sys.stderr)
        return 2

    budget = float(os.environ.get("VERIF_BUDGET_S", BUDGET_S[tier]))
    deadline = time.time() + budget
    hard_deadline = deadline + HARD_EXTRA_S[tier]
    tmp = Path(tempfile.mkdtemp(prefix=f"verif_{prop}_"))
    env = dict(os.environ)
    env["PYTHONHASHSEED"] = "0"
    env["PYTHONPATH"] = str(ROOT) + (os.pathsep + env["PYTHONPATH"] if env.get("PYTHONPATH") else "")
    env.setdefault("OMP_NUM_THREADS", "1")
    env.setdefault("OPENBLAS_NUM_THREADS", "1")
    env.setdefault("MKL_NUM_THREADS", "1")
    procs = []
    for i in range(NSHARDS):
        out = tmp / f"result_{i}.json"
        casef = tmp / f"case_{i}.json"
        log = open(tmp / f"log_{i}.txt", "w")
        p = subprocess.Popen(
            [
                sys.executable,
                "-c",
                "import sys; from vlib.worker import worker_main; worker_main(sys.argv[1:])",
                prop,
                str(i),
                str(NSHARDS),
                tier,
                str(seed),
                str(deadline),
                str(out),
                str(casef),
            ],
            cwd=str(ROOT),
            env=env,
            stdout=log,
            stderr=subprocess.STDOUT,
        )
        procs.append((i, p, out, casef, log))

    results = []
    partial_results = []
    harness_errors = []
    crash_failures = []
    killed = 0
    for i, p, out, casef, log in procs:
        remaining = hard_deadline - time.time()
        try:
            p.wait(timeout=max(1.0, remaining))
        except subprocess.TimeoutExpired:
            p.kill()
            p.wait()
            killed += 1
            log.close()
            # what the shard had finished before the wall limit still counts
            part = Path(str(out) + ".part")
            if part.exists():
                try:
                    with open(part) as f:
                        partial_results.append(json.load(f))
                except Exception:  # noqa: BLE001 - a half written checkpoint is simply not used
                    pass
            continue
        log.close()
        if out.exists():
            with open(out) as f:
                res = json.load(f)
            results.append(res)
            if res.get("error"):
                harness_errors.append(f"shard {i}: {res['error']}")
        else:
            logtxt = (tmp / f"log_{i}.txt").read_text(errors="replace")[-3000:]
            crash_signals = (signal.SIGSEGV, signal.SIGABRT, signal.SIGBUS, signal.SIGFPE, signal.SIGILL)
            if -p.returncode in crash_signals or p.returncode in (134, 139):
                # the interpreter was terminated while running a case
                try:
                    rec = json.loads(casef.read_text())
                except Exception:
                    rec = None
                if rec is not None:
                    signame = (
                        signal.Signals(-p.returncode).name if p.returncode < 0 else str(p.returncode)
                    )
                    crash_failures.append(
                        {
                            "sub": rec["sub"],
                            "case": rec["case"],
                            "clause": "process_terminated",
                            "message": f"worker died with {signame} while running this case",
                            "seed": None,
                        }
                    )
                else:
                    harness_errors.append(f"shard {i} died ({p.returncode}) before any case\n{logtxt}")
            elif p.returncode < 0:
                # killed from outside (SIGTERM/SIGKILL, OOM killer): says nothing about the property
                killed += 1
            else:
                harness_errors.append(f"shard {i} exited {p.returncode} without result\n{logtxt}")

    # 2. merge
    merged = {}
    order = []
    known_lines = []
    for res in results + partial_results:
        for kl in res.get("known_lines", []):
            known_lines.append(kl)
        for s in res["subs"]:
            m = merged.get(s["name"])
            if m is None:
                m = merged[s["name"]] = {
                    "name": s["name"],
                    "rule": s["rule"],
                    "clauses": s["clauses"],
                    "exhaustive": s["exhaustive"],
                    "evaluations": 0,
                    "invalid": 0,
                    "nontrivial": set(),
                    "labels": Counter(),
                    "excluded": Counter(),
                    "known_hits": Counter(),
                    "ambiguous": 0,
                    "samples": [],
                    "failures": [],
                    "inconclusive_shards": 0,
                    "wall_max": 0.0,
                }
                order.append(s["name"])
            m["evaluations"] += s["evaluations"]
            m["invalid"] += s["invalid"]
            m["nontrivial"].update(s["nontrivial"])
            m["labels"].update(s["labels"])
            m["excluded"].update(s["excluded"])
            m["known_hits"].update(s["known_hits"])
            m["ambiguous"] += s["ambiguous"]
            m["exhaustive"] = m["exhaustive"] and s["exhaustive"]
            if len(m["samples"]) < 3:
                m["samples"].extend(s["samples"][:1])
            m["failures"].extend(s["failures"])
            m["inconclusive_shards"] += 1 if s["inconclusive"] else 0
            m["wall_max"] = max(m["wall_max"], s["wall"])

    failures = list(crash_failures)
    for name in order:
        failures.extend(merged[name]["failures"])

    # 3. report
    viol_lines = []
    seen = set()
    for fl in failures:
        key = (fl["sub"], fl["clause"])
        if key in seen:
            continue
        seen.add(key)
        path = fl.get("replay_path") or _save_failure(prop, fl)
        viol_lines.append((fl, path))
    for fl, path in viol_lines:
        print(f"  [{fl['sub']}] clause={fl['clause']}: {fl['message'][:600]}")
        print(f"VIOLATION property={prop} replay={path}")
    printed = set()
    for kl in known_lines:
        if kl["id"] in printed:
            continue
        printed.add(kl["id"])
        print(f"KNOWN-FINDING: property={prop} {kl['id']} {kl['what']}")

    evaluations = sum(m["evaluations"] for m in merged.values())
    distinct = sum(len(m["nontrivial"]) for m in merged.values())
    samples = []
    for name in order:
        for smp in merged[name]["samples"][:2]:
            samples.append({"sub": name, "case": smp})
    if not samples:
        samples = [{"note": "no non-trivial case was generated"}]
    mod_rule = ""
    try:
        sys.path.insert(0, str(ROOT))
        from .worker import load_module

        mod = load_module(prop)
        mod_rule = getattr(mod, "RULE", "")
    except Exception as e:  # noqa: BLE001
        harness_errors.append(f"cannot import property module in parent: {e}")
    subs_cov = []
    for name in order:
        m = merged[name]
        subs_cov.append(
            {
                "name": name,
                "clauses": m["clauses"],
                "rule": m["rule"],
                "evaluations": m["evaluations"],
                "invalid_cases": m["invalid"],
                "distinct_nontrivial": len(m["nontrivial"]),
                "exhaustive": m["exhaustive"],
                "labels": dict(sorted(m["labels"].items())),
                "excluded_known": dict(m["excluded"]),
                "known_finding_hits": dict(m["known_hits"]),
                "ambiguous_float_comparisons": m["ambiguous"],
                "inconclusive_shards": m["inconclusive_shards"],
                "slowest_shard_s": round(m["wall_max"], 2),
            }
        )
    wall = time.time() - t0
    evidence = {
        "property_id": prop,
        "tier": tier,
        "seed": int(seed),
        "level": "exploration",
        "coverage": {
            "evaluations": int(evaluations),
            "distinct_nontrivial": int(distinct),
            "rule": mod_rule
            + " | distinct = SHA-1 of the canonical JSON of the generated case, counted per sub-check"
            " over all shards; per-sub rules are listed under 'subs'.",
            "samples": samples,
            "exhaustive": bool(subs_cov) and all(s["exhaustive"] for s in subs_cov),
            "subs": subs_cov,
            "shards_started": NSHARDS,
            "shards_finished": len(results),
            "shards_killed_at_wall_limit": killed,
            "shards_partial_results_used": len(partial_results),
            "known_findings_reproduced": sorted(printed),
            "engine": "hypothesis (seeded, database=None, shrink budget bounded) + finite enumerations",
        },
        "assumptions": [
            "compiled extension modules are the ones rebuilt from the generated C in /repo/src "
            "(Cython is not installed; a .pyx edit cannot be compiled here)",
            "exploration only: absence of a violation is a statement about the generated cases",
        ],
        "wall_s": round(wall, 2),
        "violations": len(viol_lines),
    }
    # runs against a scratch copy of biotite (seeded changes) must not overwrite the evidence of /repo
    evdir = Path(os.environ.get("VERIF_EVIDENCE_DIR") or (ROOT / "evidence"))
    evdir.mkdir(parents=True, exist_ok=True)
    evpath = evdir / f"{prop}.json"
    tmp_ev = f"{evpath}.{os.getpid()}.tmp"
    with open(tmp_ev, "w") as f:
        json.dump(strict_json(evidence, max_len=10**9), f, indent=1, sort_keys=True)
    os.replace(tmp_ev, evpath)

    # 4. clean up scratch
    import shutil

    keep_tmp = bool(harness_errors) and os.environ.get("VERIF_KEEP_TMP")
    if not keep_tmp:
        shutil.rmtree(tmp, ignore_errors=True)

    print(
        f"{prop} tier={tier} seed={seed}: {evaluations} cases, {distinct} distinct non-trivial, "
        f"{len(viol_lines)} violation(s), {len(printed)} known finding(s), "
        f"{len(results)}/{NSHARDS} shards finished, {wall:.1f}s"
    )
    starved = [m["name"] for m in merged.values() if m["evaluations"] == 0]
    if not viol_lines and (evaluations == 0 or len(results) + len(partial_results) == 0):
        print(
            f"INCONCLUSIVE property={prop}: no case was evaluated within the wall limit "
            f"({killed} of {NSHARDS} shards killed) - nothing is claimed by this run"
        )
    elif starved:
        print(f"note: sub-checks without any evaluated case in this run (time budget): {', '.join(starved)}")
    if viol_lines:
        return 1
    if harness_errors:
        for e in harness_errors[:5]:
            print("harness error: " + e, file=sys.stderr)
        return 2
    return 0
