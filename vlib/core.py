import hashlib
import json
import math
from dataclasses import dataclass, field
from typing import Callable, Optional

import numpy as np


# --------------------------------------------------------------------------
# plain-data helpers
# --------------------------------------------------------------------------
def canonical(obj):
    """Convert numpy scalars/arrays/tuples/bytes into plain JSON-able data."""
    if isinstance(obj, dict):
        return {str(k): canonical(v) for k, v in obj.items()}
    if isinstance(obj, (list, tuple)):
        return [canonical(v) for v in obj]
    if isinstance(obj, np.ndarray):
        return canonical(obj.tolist())
    if isinstance(obj, (np.bool_,)):
        return bool(obj)
    if isinstance(obj, np.integer):
        return int(obj)
    if isinstance(obj, np.floating):
        return float(obj)
    if isinstance(obj, (bytes, bytearray)):
        return {"__bytes__": bytes(obj).hex()}
    if isinstance(obj, (set, frozenset)):
        return sorted((canonical(v) for v in obj), key=lambda v: json.dumps(v, sort_keys=True))
    return obj


def dumps(obj):
    """JSON text for replay files (NaN/Infinity allowed, python reads them back)."""
    return json.dumps(canonical(obj), sort_keys=True, allow_nan=True)


def case_hash(sub_name, case):
    h = hashlib.sha1()
    h.update(sub_name.encode())
    h.update(b"\0")
    h.update(dumps(case).encode("utf-8", "surrogatepass"))
    return h.hexdigest()[:16]


def strict_json(obj, max_len=4000, _depth=0):
    """Sanitise for evidence files: strict JSON (no NaN), bounded size."""
    obj = canonical(obj)

    def conv(o):
        if isinstance(o, float):
            if math.isnan(o):
                return "NaN"
            if math.isinf(o):
                return "Infinity" if o > 0 else "-Infinity"
            return o
        if isinstance(o, dict):
            return {k: conv(v) for k, v in o.items()}
        if isinstance(o, list):
            return [conv(v) for v in o]
        if isinstance(o, str):
            # lone surrogates cannot be written as UTF-8
            return o.encode("utf-8", "backslashreplace").decode("utf-8")
        return o

    out = conv(obj)
    text = json.dumps(out, sort_keys=True)
    if len(text) > max_len:
        return {"truncated_json": text[:max_len], "full_length": len(text)}
    return out


# --------------------------------------------------------------------------
# outcome of one case
# --------------------------------------------------------------------------
class Outcome:
    __slots__ = ("labels", "nontrivial", "violations", "excluded", "ambiguous", "invalid")

    def __init__(self):
        self.labels = []
        self.nontrivial = False
        self.violations = []  # list of (clause, message)
        self.excluded = []  # known-finding ids whose input class was narrowed away
        self.ambiguous = 0  # float comparisons inside the tolerance band (not decided)
        self.invalid = False  # generated case outside the property's domain

    # -- bookkeeping
    def label(self, *names):
        for n in names:
            self.labels.append(str(n))

    def mark_nontrivial(self, cond=True):
        if cond:
            self.nontrivial = True

    def exclude(self, finding_id):
        self.excluded.append(finding_id)

    # -- oracle
    def fail(self, clause, message=""):
        self.violations.append((str(clause), str(message)[:2000]))

    def check(self, cond, clause, message=""):
        if not cond:
            if callable(message):
                message = message()
            self.fail(clause, message)
        return bool(cond)

    def check_eq(self, got, want, clause, what=""):
        ok = got == want
        if isinstance(ok, np.ndarray):
            ok = bool(ok.all())
        if not ok:
            self.fail(clause, f"{what}: got {got!r}, want {want!r}")
        return bool(ok)

    def check_array_eq(self, got, want, clause, what="", nan_equal=True):
        got = np.asarray(got)
        want = np.asarray(want)
        if got.shape != want.shape:
            self.fail(clause, f"{what}: shape {got.shape} != {want.shape}")
            return False
        if got.dtype.kind in "fc" and want.dtype.kind in "fc":
            ok = np.array_equal(got, want, equal_nan=nan_equal)
        else:
            ok = np.array_equal(got, want)
        if not ok:
            self.fail(clause, f"{what}: got {got.tolist()!r}, want {want.tolist()!r}")
        return bool(ok)

    def expect_raises(self, exc_types, fn, clause, what=""):
        """fn() must raise one of exc_types; returning a value is a violation.

        Other exception types propagate (the driver attributes them)."""
        try:
            r = fn()
        except exc_types as e:
            return e
        self.fail(clause, f"{what}: expected {exc_types} but got a value {r!r:.300}")
        return None

    @property
    def ok(self):
        return not self.violations


# --------------------------------------------------------------------------
# declarations used by property modules
# --------------------------------------------------------------------------
@dataclass
class Sub:
    name: str
    strategy: Callable  # strategy(tier) -> hypothesis strategy yielding a plain-data case
    run: Callable  # run(case) -> Outcome
    quick: int = 1000  # total number of examples over all shards
    thorough: int = 30000
    rule: str = ""  # what makes a case of this sub-check non-trivial
    clauses: str = ""  # which sentences of the property this sub-check decides
    stateful: bool = False


@dataclass
class Enum:
    name: str
    cases: Callable  # cases(tier) -> iterable of plain-data cases (deterministic order)
    run: Callable
    rule: str = ""
    clauses: str = ""
    exhaustive: bool = True
    tiers: tuple = ("quick", "thorough")
