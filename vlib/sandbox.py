"""
Sacrificial subprocess for calls that may terminate the interpreter
(DESIGN.md 2.3).  fork() keeps the already imported biotite; the child returns
a pickled value through a pipe.
"""
import os
import pickle
import select
import signal
import time


def run_sandboxed(fn, *args, timeout=60.0, stack_limit=None):
    """Returns ("ok", value) | ("exc", (type_name, text)) | ("signal", name) |
    ("timeout", None) | ("exit", code)."""
    r, w = os.pipe()
    pid = os.fork()
    if pid == 0:
        code = 0
        try:
            os.close(r)
            try:
                value = ("ok", fn(*args))
            except BaseException as e:  # noqa: BLE001
                value = ("exc", (type(e).__name__, str(e)[:500]))
            data = pickle.dumps(value)
            with os.fdopen(w, "wb") as f:
                f.write(data)
        except BaseException:  # noqa: BLE001
            code = 3
        finally:
            os._exit(code)
    os.close(w)
    chunks = []
    deadline = time.time() + timeout
    timed_out = False
    while True:
        left = deadline - time.time()
        if left <= 0:
            timed_out = True
            break
        ready, _, _ = select.select([r], [], [], min(left, 1.0))
        if ready:
            b = os.read(r, 1 << 16)
            if not b:
                break
            chunks.append(b)
    os.close(r)
    if timed_out:
        try:
            os.kill(pid, signal.SIGKILL)
        except OSError:
            pass
        os.waitpid(pid, 0)
        return ("timeout", None)
    _, status = os.waitpid(pid, 0)
    if os.WIFSIGNALED(status):
        return ("signal", signal.Signals(os.WTERMSIG(status)).name)
    code = os.WEXITSTATUS(status)
    if code != 0:
        return ("exit", code)
    try:
        return pickle.loads(b"".join(chunks))
    except Exception:  # noqa: BLE001
        return ("exit", -1)
