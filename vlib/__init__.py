"""
Shared harness for the biotite property checks (see DESIGN.md section 2).

A property module (``props/cXX_*.py``) exposes

    PROPERTY   = "C13"
    SUBS       = [Sub(...), ...]        # Hypothesis-driven sub-checks
    ENUMS      = [Enum(...), ...]       # optional finite enumerations
    FINDINGS   = {"match_name": predicate(sub, case, clause, message) -> bool}
    def setup(): ...                    # optional, run once in every worker

Every case is plain JSON-able data; ``run(case) -> Outcome`` rebuilds the
biotite objects, runs the operations and evaluates the oracle.
"""

from .core import Enum, Outcome, Sub, canonical, case_hash  # noqa: F401
