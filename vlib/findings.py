"""
Known findings (DESIGN.md 2.4).  The file is committed and static; nothing in
the harness ever writes to it.
"""

import json
from functools import lru_cache
from pathlib import Path

ROOT = Path(__file__).resolve().parent.parent
FILE = ROOT / "known_findings.json"


@lru_cache(maxsize=None)
def _load():
    out = []
    if FILE.exists():
        with open(FILE) as f:
            out.extend(json.load(f)["findings"])
    # per-property fragments (same entry format), merged read-only
    for frag in sorted((ROOT / "known_findings.d").glob("*.json")):
        with open(frag) as f:
            out.extend(json.load(f)["findings"])
    return out


def entries(prop=None, status=None):
    out = []
    for e in _load():
        if prop is not None and e["property"] != prop:
            continue
        if status is not None and e["status"] != status:
            continue
        out.append(e)
    return out


def is_open(finding_id):
    """True if the finding is listed as open (its input class is excluded by
    construction from the main generators, and counted)."""
    for e in _load():
        if e["id"] == finding_id:
            return e["status"] == "open"
    return False


def match_open(prop, predicates, sub, case, clause, message):
    """Return the id of the open finding whose predicate recognises this
    violation, or None."""
    for e in entries(prop, "open"):
        pred = predicates.get(e["match"])
        if pred is None:
            continue
        try:
            if pred(sub, case, clause, message):
                return e["id"]
        except Exception:
            continue
    return None
