"""
Fake external tools for the C20 check (application wrappers).

The executables next to this file (fake_clustalo, fake_mafft, fake_muscle3,
fake_muscle5, fake_generic) call ``main(<personality>)``.  Only the standard
library is imported so that start-up stays cheap.

Behaviour is selected per case through the JSON control file named by the
environment variable ``VERIF_FAKE_CTL``:

    log        path of a JSON-lines file the tool appends its observations to
    gate       path or null: the tool waits until this file exists (at most
               ``gate_max`` seconds, default 240) before it does anything else
               ("hang" = the gate is never opened).  A tool that gives up waiting
               logs ``{"phase": "gate_timeout"}``: the check then discards the case
    early_output  (MSA personalities) read the input and write all output *before*
               waiting at the gate (a tool that has written everything and then hangs)
    version    text printed for ``-version`` / ``--version`` instead of the built-in one
    mode       "ok"       write a valid alignment of the input file
               "exit"     like ok (if write_before_exit) but exit with exit_code
               "garbage"  write unparsable output, kind = ctl["garbage"]
               "missing"  write nothing at all (unlink_out: also remove the output file)
    patterns   per *input index* a string of 'x' (next residue) and '-' (gap)
    order      the order (input indices) in which the rows are written
    stdout / stderr   text written for fake_generic (stderr: all personalities)

The ``start`` record holds argv, cwd and - if file descriptor 0 is a regular file - the
text read from standard input (key ``stdin``, else null).
    exit_code  exit status for mode "exit" and for fake_generic

Exit codes 90..99 mean "the check drove the fake tool wrongly" (harness error).
"""

import json
import os
import sys
import time

VERSIONS = {
    "clustalo": "1.2.4\n",
    "mafft": "v7.505 (2022/Apr/10)\n",
    "muscle3": "MUSCLE v3.8.31 by Robert C. Edgar\n",
    "muscle5": "muscle 5.1.linux64 []\nBuilt Jan 13 2022 23:17:13\n",
    "generic": "fake_generic 1.0\n",
}

# options that consume the following argument
VALUE_OPTS = {
    "clustalo": {
        "--in", "--out", "--seqtype", "--guidetree-out", "--distmat-out",
        "--distmat-in", "--guidetree-in",
    },
    "mafft": {"--aamatrix"},
    "muscle3": {
        "-in", "-out", "-tree1", "-tree2", "-seqtype", "-matrix", "-gapopen",
        "-gapextend", "-hydrofactor", "-center",
    },
    "muscle5": {"-align", "-super5", "-output", "-threads", "-consiters", "-refineiters"},
    "generic": set(),
}


def parse_args(personality, argv):
    opts, flags, positional = {}, [], []
    takes = VALUE_OPTS[personality]
    i = 0
    while i < len(argv):
        a = argv[i]
        if a in takes:
            if i + 1 >= len(argv):
                sys.stderr.write(f"option {a} needs a value\n")
                sys.exit(91)
            opts[a] = argv[i + 1]
            i += 2
        elif a.startswith("-"):
            flags.append(a)
            i += 1
        else:
            positional.append(a)
            i += 1
    return opts, flags, positional


def read_fasta(path):
    entries = []
    with open(path) as f:
        for line in f:
            line = line.rstrip("\n")
            if not line:
                continue
            if line.startswith(">"):
                entries.append([line[1:], ""])
            elif entries:
                entries[-1][1] += line
            else:
                sys.stderr.write("input is not FASTA\n")
                sys.exit(92)
    return entries


def caterpillar(labels):
    """A valid Newick guide tree over the given leaf labels."""
    node = f"{labels[0]}:0.1"
    for lab in labels[1:]:
        node = f"({node},{lab}:0.2):0.1"
    if len(labels) == 1:
        return f"({node});"
    # strip the distance of the root
    return node[: node.rfind(":")] + ";"


def log(ctl, rec):
    rec["pid"] = os.getpid()
    with open(ctl["log"], "a") as f:
        f.write(json.dumps(rec) + "\n")


def build_rows(ctl, entries):
    rows = []
    for idx in ctl["order"]:
        header, seq = entries[idx]
        pat = ctl["patterns"][idx]
        if pat.count("x") != len(seq):
            sys.stderr.write(f"pattern {idx} does not fit the input sequence\n")
            sys.exit(93)
        it = iter(seq)
        rows.append([header, "".join(next(it) if c == "x" else "-" for c in pat)])
    return rows


def garble(kind, rows, ragged_header):
    if kind == "text":
        return "this is not\nan alignment at all \x01\x02\n\n;;\n"
    if kind == "drop_row":
        rows = rows[:-1]
    elif kind == "ragged":
        # the row of input sequence 1 is one column shorter than the others
        rows = [[h, s[:-1]] if h == ragged_header else [h, s] for h, s in rows]
    elif kind == "bad_header":
        rows = [["seq_" + r[0] + "_x", r[1]] for r in rows]
    else:
        sys.stderr.write(f"unknown garbage kind {kind}\n")
        sys.exit(94)
    return "".join(f">{h}\n{s}\n" for h, s in rows)


def read_regular_stdin():
    """Text on standard input if it is a regular file (never wait for a terminal or a pipe)."""
    import stat

    try:
        if stat.S_ISREG(os.fstat(0).st_mode):
            return sys.stdin.read()
    except (OSError, ValueError):
        pass
    return None


def wait_gate(ctl):
    gate = ctl.get("gate")
    if gate:
        t_end = time.monotonic() + float(ctl.get("gate_max", 240.0))
        while not os.path.exists(gate):
            if time.monotonic() >= t_end:
                # the check must not draw a conclusion from a "hanging" tool that walked on
                log(ctl, {"phase": "gate_timeout"})
                break
            time.sleep(0.01)


def main(personality):
    argv = sys.argv[1:]
    ctl = None
    ctl_path = os.environ.get("VERIF_FAKE_CTL")
    if ctl_path and os.path.exists(ctl_path):
        with open(ctl_path) as f:
            ctl = json.load(f)
    if "--version" in argv or "-version" in argv:
        version = (ctl or {}).get("version")
        sys.stdout.write(VERSIONS[personality] if version is None else version)
        return 0
    if ctl is None:
        sys.stderr.write("VERIF_FAKE_CTL is not set\n")
        return 98
    opts, flags, positional = parse_args(personality, argv)
    log(ctl, {"phase": "start", "argv": argv, "cwd": os.getcwd(), "tool": personality, "stdin": read_regular_stdin()})

    mode = ctl["mode"]

    if personality == "generic":
        wait_gate(ctl)
        sys.stderr.write(ctl.get("stderr", ""))
        sys.stdout.write(ctl.get("stdout", ""))
        sys.stdout.flush()
        log(ctl, {"phase": "end"})
        return int(ctl.get("exit_code", 0))

    # ---- where is what
    if personality == "clustalo":
        in_path, out_path = opts.get("--in"), opts.get("--out")
        matrix_path = None
    elif personality == "mafft":
        in_path = positional[-1] if positional else None
        out_path = None  # stdout
        matrix_path = opts.get("--aamatrix")
    elif personality == "muscle3":
        in_path, out_path = opts.get("-in"), opts.get("-out")
        matrix_path = opts.get("-matrix")
    else:
        in_path = opts.get("-align") or opts.get("-super5")
        out_path = opts.get("-output")
        matrix_path = None
    if in_path is None or (out_path is None and personality != "mafft"):
        sys.stderr.write("missing input/output option\n")
        return 95

    def work():
        entries = read_fasta(in_path)
        matrix_text = None
        if matrix_path is not None:
            with open(matrix_path) as f:
                matrix_text = f.read()
        log(ctl, {"phase": "input", "entries": entries, "matrix": matrix_text})

        if mode == "missing":
            if ctl.get("unlink_out") and out_path is not None:
                try:
                    os.remove(out_path)
                except FileNotFoundError:
                    pass
            return

        write_output = mode in ("ok", "garbage") or (mode == "exit" and ctl.get("write_before_exit"))
        if not write_output:
            return
        rows = build_rows(ctl, entries)
        if mode == "garbage":
            text = garble(ctl["garbage"], rows, entries[1][0] if len(entries) > 1 else None)
        else:
            text = "".join(f">{h}\n{s}\n" for h, s in rows)
        if out_path is None:
            sys.stdout.write(text)
            sys.stdout.flush()
        else:
            with open(out_path, "w") as f:
                f.write(text)
        # ---- side products the wrappers read back: the leaves carry the names the tool read
        n = len(entries)
        labels = [entries[i][0] for i in ctl["order"]]
        if personality == "clustalo":
            if "--guidetree-out" in opts:
                with open(opts["--guidetree-out"], "w") as f:
                    f.write(caterpillar(labels) + "\n")
            if "--distmat-out" in opts:
                with open(opts["--distmat-out"], "w") as f:
                    f.write(f"{n}\n")
                    for i in range(n):
                        vals = " ".join(f"{abs(i - j) * 0.25:.6f}" for j in range(n))
                        f.write(f"{entries[i][0]}  {vals}\n")
        elif personality == "mafft":
            if "--treeout" in flags:
                with open(in_path + ".tree", "w") as f:
                    # MAFFT labels its leaves <n>_<name>
                    f.write(caterpillar([f"{i + 1}_{entries[i][0]}" for i in ctl["order"]]) + "\n")
        elif personality == "muscle3":
            for key in ("-tree1", "-tree2"):
                if key in opts:
                    with open(opts[key], "w") as f:
                        f.write(caterpillar(labels) + "\n")

    early = bool(ctl.get("early_output"))
    if early:
        work()
    wait_gate(ctl)
    sys.stderr.write(ctl.get("stderr", ""))
    sys.stderr.flush()
    if not early:
        work()
    log(ctl, {"phase": "end"})
    if mode == "exit":
        return int(ctl["exit_code"])
    return 0
