"""
Fake tantan / RNAfold / RNAplot / RNAalifold / mkdssp for the C20 sub-check
``tool_lifecycle`` (the executables fake_tantan, fake_rnafold, fake_rnaplot,
fake_rnaalifold, fake_dssp next to this file call ``main(<personality>)``).

Same behaviour protocol as fakelib.py (control file named by ``VERIF_FAKE_CTL``,
keys log / gate / gate_max / mode / stderr / exit_code / write_before_exit /
garbage / unlink_out), plus

    early_output  produce the result *before* waiting at the gate (a tool that
                  has written everything and then hangs)
    version       text printed for ``--version`` (fake_dssp; the wrapper probes it)
    plan          what the tool "computes" (chosen by the generated case):
        tantan      {"masks": [[[start, stop], ...] per input sequence], "wrap": n}
        rnafold     {"dotbracket": str, "energy": float}
        rnaplot     {"coords": [[x, y], ...]}                 (hundredths as ints)
        rnaalifold  {"dotbracket": str, "free": float, "cov": float, "consensus": str}
        dssp        {"sse": "one letter per residue (may be a blank)"}

Every tool reads the input file (and stdin) the wrapper really passes, logs what
it read as an ``input`` record and derives its output from *that* input: if the
plan does not fit the input that was read the tool exits with 93.
Exit codes 90..99 mean "the check drove the fake tool wrongly" (harness error).
Only the standard library is imported.
"""

import json
import os
import sys
import time

from fakelib import log, read_fasta, wait_gate

VALUE_OPTS = {
    "tantan": {"-m", "-x"},
    "rnafold": {"-T"},
    "rnaplot": {"-i", "--output-format", "-t"},
    "rnaalifold": {"-T"},
    "dssp": {"-i", "-o", "--output-format"},
}

THREE_TO_ONE = {
    "ALA": "A", "ARG": "R", "ASN": "N", "ASP": "D", "CYS": "C", "GLN": "Q", "GLU": "E",
    "GLY": "G", "HIS": "H", "ILE": "I", "LEU": "L", "LYS": "K", "MET": "M", "PHE": "F",
    "PRO": "P", "SER": "S", "THR": "T", "TRP": "W", "TYR": "Y", "VAL": "V",
}  # fmt: skip

BINARY_GARBAGE = b"\xff\xfe\x00garbage\xc3\x28\n"


def parse_args(personality, argv):
    opts, flags, positional = {}, [], []
    takes = VALUE_OPTS[personality]
    i = 0
    while i < len(argv):
        a = argv[i]
        if a in takes:
            if i + 1 >= len(argv):
                sys.stderr.write(f"option {a} needs a value\n")
                sys.exit(91)
            opts[a] = argv[i + 1]
            i += 2
        elif a.startswith("-") and len(a) > 1:
            flags.append(a)
            i += 1
        else:
            positional.append(a)
            i += 1
    return opts, flags, positional


def wrap(text, width):
    if not width or width <= 0:
        return text + "\n"
    return "".join(text[i : i + width] + "\n" for i in range(0, len(text), width)) or "\n"


def misfit(what):
    sys.stderr.write(f"the plan does not fit the input: {what}\n")
    sys.exit(93)


def pairs_of(dotbracket):
    """Partner per position of a '(' ')' '.' string (-1 = unpaired); None if unbalanced."""
    partner = [-1] * len(dotbracket)
    stack = []
    for i, c in enumerate(dotbracket):
        if c == "(":
            stack.append(i)
        elif c == ")":
            if not stack:
                return None
            j = stack.pop()
            partner[i], partner[j] = j, i
    return None if stack else partner


# --------------------------------------------------------------------------
# personalities: read(...) -> input record, produce(...) -> (stdout text, {path: text or bytes})
# --------------------------------------------------------------------------
def read_tantan(opts, flags, positional, ctl):
    if len(positional) != 1:
        sys.stderr.write("tantan: exactly one input file expected\n")
        sys.exit(95)
    entries = read_fasta(positional[0])
    matrix = None
    if "-m" in opts:
        with open(opts["-m"]) as f:
            matrix = f.read()
    return {"entries": entries, "matrix": matrix, "protein": "-p" in flags, "letter": opts.get("-x")}


def produce_tantan(inp, plan, kind):
    masks = plan["masks"]
    if len(masks) != len(inp["entries"]):
        misfit("number of sequences")
    out = []
    for (header, seq), intervals in zip(inp["entries"], masks):
        chars = list(seq)
        for start, stop in intervals:
            if not (0 <= start <= stop <= len(chars)):
                misfit("mask interval beyond the sequence")
            for i in range(start, stop):
                # the real tool lower-cases repeats unless a masking letter is given with -x
                chars[i] = inp["letter"] if inp["letter"] else chars[i].lower()
        text = "".join(chars)
        if kind == "non_ascii":
            text = text[: len(text) // 2] + "é中" + text[len(text) // 2 :]
        out.append(f">{header}\n" + wrap(text, plan.get("wrap", 0)))
    return "".join(out), {}


def read_rnafold(opts, flags, positional, ctl):
    if len(positional) != 1:
        sys.stderr.write("RNAfold: exactly one input file expected\n")
        sys.exit(95)
    with open(positional[0]) as f:
        lines = f.read().split("\n")
    while lines and lines[-1] == "":
        lines.pop()
    header = None
    if lines and lines[0].startswith(">"):
        header = lines.pop(0)[1:]
    seq = lines.pop(0) if lines else ""
    return {"header": header, "seq": seq, "rest": lines, "T": opts.get("-T"), "flags": flags}


def produce_rnafold(inp, plan, kind):
    db = plan["dotbracket"]
    if len(db) != len(inp["seq"]):
        misfit("length of the structure")
    head = f">{inp['header']}\n" if inp["header"] is not None else ""
    seq = inp["seq"].upper().replace("T", "U")
    if kind == "text":
        return "ERROR: this is no structure\n", {}
    if kind == "bad_energy":
        return f"{head}{seq}\n{db} (-n.an)\n", {}
    if kind == "no_energy":
        return f"{head}{seq}\n{db}\n", {}
    return f"{head}{seq}\n{db} ({plan['energy']:6.2f})\n", {}


def read_rnaplot(opts, flags, positional, ctl):
    if "-i" not in opts:
        sys.stderr.write("RNAplot: no input file\n")
        sys.exit(95)
    with open(opts["-i"]) as f:
        lines = f.read().split("\n")
    while lines and lines[-1] == "":
        lines.pop()
    return {"lines": lines, "layout": opts.get("-t"), "format": opts.get("--output-format")}


def produce_rnaplot(inp, plan, kind):
    lines = inp["lines"]
    if len(lines) != 2 or len(lines[0]) != len(lines[1]):
        misfit("RNAplot input is not a sequence line and a structure line of equal length")
    seq, db = lines
    coords = plan["coords"]
    partner = pairs_of(db)
    if len(coords) != len(db) or partner is None:
        misfit("number of coordinates / unbalanced structure")
    if inp["format"] != "xrna":
        # another format would go to rna.ps / rna.svg ...: the wrapper finds no rna.ss
        return "", {}
    rows = ["# Vienna RNA Package 2.6.4, XRNA output\n", "# CreationDate: today\n", f"# Options: -t {inp['layout']}\n"]
    for i, (x, y) in enumerate(coords):
        xs, ys = f"{x / 100:.2f}", f"{y / 100:.2f}"
        if kind == "text" and i == len(coords) // 2:
            xs = "n/a"
        if kind == "ragged" and i == len(coords) - 1:
            rows.append(f"{i + 1} {seq[i]} {xs}\n")
            continue
        rows.append(f"{i + 1} {seq[i]} {xs} {ys} {1 if partner[i] >= 0 else 0} {partner[i] + 1}\n")
    if kind == "binary_file":
        return "", {"rna.ss": BINARY_GARBAGE}
    return "", {"rna.ss": "".join(rows)}


def read_rnaalifold(opts, flags, positional, ctl):
    if len(positional) != 1:
        sys.stderr.write("RNAalifold: exactly one input file expected\n")
        sys.exit(95)
    entries = read_fasta(positional[0])
    constraint = None
    if "-C" in flags:
        # the real tool reads the constraint from stdin; never wait for a terminal or an open pipe
        import stat

        if stat.S_ISREG(os.fstat(0).st_mode):
            constraint = sys.stdin.read()
    return {"entries": entries, "constraint": constraint, "T": opts.get("-T"), "flags": flags}


def produce_rnaalifold(inp, plan, kind):
    db = plan["dotbracket"]
    widths = {len(s) for _, s in inp["entries"]}
    if widths != {len(db)} or len(plan["consensus"]) != len(db):
        misfit("width of the alignment")
    free, cov = plan["free"], plan["cov"]
    if kind == "text":
        return "ERROR: no alignment\n", {}
    if kind == "bad_energy":
        return f"{plan['consensus']}\n{db} ({free + cov:6.2f})\n", {}
    if kind == "no_energy":
        return f"{plan['consensus']}\n{db}\n", {}
    return f"{plan['consensus']}\n{db} ({free + cov:6.2f} = {free:6.2f} + {cov:6.2f})\n", {}


def read_dssp(opts, flags, positional, ctl):
    if "-i" in opts or "-o" in opts:
        cli, in_path, out_path = "old", opts.get("-i"), opts.get("-o")
    else:
        cli = "new"
        in_path = positional[0] if len(positional) > 0 else None
        out_path = positional[1] if len(positional) > 1 else None
    if in_path is None or out_path is None or len(positional) > (2 if cli == "new" else 0):
        sys.stderr.write("mkdssp: input and output file expected\n")
        sys.exit(95)
    with open(in_path) as f:
        text = f.read()
    # ---- the atom_site loop (the writer quotes nothing in the values generated by the check)
    columns, rows = [], []
    lines = text.split("\n")
    i = 0
    while i < len(lines):
        if lines[i].strip() == "loop_" and i + 1 < len(lines) and lines[i + 1].startswith("_atom_site."):
            i += 1
            while i < len(lines) and lines[i].startswith("_atom_site."):
                columns.append(lines[i].strip()[len("_atom_site.") :])
                i += 1
            while i < len(lines) and lines[i].strip() not in ("#", "") and not lines[i].startswith(("_", "loop_", "data_")):
                rows.append(lines[i].split())
                i += 1
            break
        i += 1
    if not columns:
        # a category with a single row is written as key-value pairs
        pairs = [ln.split(None, 1) for ln in lines if ln.startswith("_atom_site.")]
        if pairs and all(len(p) == 2 for p in pairs):
            columns = [p[0][len("_atom_site.") :] for p in pairs]
            rows = [[p[1].strip() for p in pairs]]
    if not columns or any(len(r) != len(columns) for r in rows):
        sys.stderr.write("mkdssp: cannot read the atom_site category\n")
        sys.exit(92)
    return {"cli": cli, "columns": columns, "rows": rows, "out_path": out_path}


def produce_dssp(inp, plan, kind):
    col = {c: k for k, c in enumerate(inp["columns"])}
    need = ("auth_asym_id", "auth_seq_id", "pdbx_PDB_ins_code", "auth_comp_id")
    if any(c not in col for c in need):
        misfit("atom_site lacks " + ", ".join(c for c in need if c not in col))
    residues = []
    for r in inp["rows"]:
        key = tuple(r[col[c]] for c in need)
        if not residues or residues[-1] != key:
            residues.append(key)
    sse = plan["sse"]
    if len(sse) != len(residues):
        misfit(f"{len(residues)} residues in the input, {len(sse)} planned")
    out = [
        "==== Secondary Structure Definition by the program DSSP, fake version ==== DATE=2026-01-01        .\n",
        "REFERENCE W. KABSCH AND C.SANDER, BIOPOLYMERS 22 (1983) 2577-2637                                  .\n",
        f"{len(residues):5d}  1  0  0  0 TOTAL NUMBER OF RESIDUES, NUMBER OF CHAINS                                  .\n",
    ]
    if kind != "no_header":
        out.append(
            "  #  RESIDUE AA STRUCTURE BP1 BP2  ACC     N-H-->O    O-->H-N    N-H-->O    O-->H-N    TCO  KAPPA ALPHA  PHI   PSI    X-CA   Y-CA   Z-CA\n"
        )
    tail = "     0   0  100      0, 0.0     0, 0.0     0, 0.0     0, 0.0   0.000 360.0 360.0 360.0 360.0    0.0    0.0    0.0\n"
    num = 0
    prev = None
    for k, (chain, seq_id, ins, comp) in enumerate(residues):
        if prev is not None:
            chain_break = prev[0] != chain
            try:
                gap = int(seq_id) - int(prev[1]) > 1
            except ValueError:
                gap = False
            if chain_break or gap:
                num += 1
                out.append(f"{num:5d}        !{'*' if chain_break else ' '}             0   0    0      0, 0.0     0, 0.0\n")
        num += 1
        ins = " " if ins in (".", "?") else ins[:1]
        line = f"{num:5d}{int(seq_id):5d}{ins}{chain[:1]} {THREE_TO_ONE.get(comp, 'X')}  {sse[k]}  > S+{tail}"
        if kind == "short_lines" and k == len(residues) - 1:
            line = line[:15] + "\n"
        out.append(line)
        prev = (chain, seq_id)
    text = "".join(out)
    if kind == "text":
        text = "mkdssp: this is not a DSSP file\n\n"
    if kind == "binary_file":
        text = BINARY_GARBAGE
    return "", {inp["out_path"]: text}


READ = {"tantan": read_tantan, "rnafold": read_rnafold, "rnaplot": read_rnaplot, "rnaalifold": read_rnaalifold, "dssp": read_dssp}
PRODUCE = {
    "tantan": produce_tantan,
    "rnafold": produce_rnafold,
    "rnaplot": produce_rnaplot,
    "rnaalifold": produce_rnaalifold,
    "dssp": produce_dssp,
}
DEFAULT_VERSION = {
    "tantan": "tantan 49\n",
    "rnafold": "RNAfold 2.6.4\n",
    "rnaplot": "RNAplot 2.6.4\n",
    "rnaalifold": "RNAalifold 2.6.4\n",
    "dssp": "mkdssp version 4.4.0\n",
}


def emit(stdout_text, files):
    for path, content in files.items():
        with open(path, "wb" if isinstance(content, bytes) else "w") as f:
            f.write(content)
    if isinstance(stdout_text, bytes):
        sys.stdout.flush()
        sys.stdout.buffer.write(stdout_text)
        sys.stdout.buffer.flush()
    else:
        sys.stdout.write(stdout_text)
        sys.stdout.flush()


def main(personality):
    argv = sys.argv[1:]
    ctl = None
    ctl_path = os.environ.get("VERIF_FAKE_CTL")
    if ctl_path and os.path.exists(ctl_path):
        with open(ctl_path) as f:
            ctl = json.load(f)
    if "--version" in argv:
        # a version probe is not a run: nothing is logged
        version = (ctl or {}).get("version")
        sys.stdout.write(DEFAULT_VERSION[personality] if version is None else version)
        return 0
    if ctl is None:
        sys.stderr.write("VERIF_FAKE_CTL is not set\n")
        return 98
    opts, flags, positional = parse_args(personality, argv)
    log(ctl, {"phase": "start", "argv": argv, "cwd": os.getcwd(), "tool": personality})

    mode = ctl["mode"]
    early = bool(ctl.get("early_output"))
    produced = False

    def work():
        inp = READ[personality](opts, flags, positional, ctl)
        rec = {"phase": "input"}
        rec.update({k: v for k, v in inp.items() if k != "out_path"})
        log(ctl, rec)
        if mode == "missing":
            if ctl.get("unlink_out") and inp.get("out_path"):
                try:
                    os.remove(inp["out_path"])
                except FileNotFoundError:
                    pass
        elif mode in ("ok", "garbage") or (mode == "exit" and ctl.get("write_before_exit")):
            kind = ctl.get("garbage") if mode == "garbage" else None
            stdout_text, files = PRODUCE[personality](inp, ctl["plan"], kind)
            if kind == "binary":
                stdout_text = BINARY_GARBAGE
            emit(stdout_text, files)
        log(ctl, {"phase": "output"})

    if early:
        work()
        produced = True
    wait_gate(ctl)
    sys.stderr.write(ctl.get("stderr", ""))
    sys.stderr.flush()
    if not produced:
        work()
    log(ctl, {"phase": "end"})
    if mode == "exit":
        return int(ctl["exit_code"])
    return 0
