"""
NCBI genetic code tables used by props/c03_sequence.py (only by C03).

The check must not read biotite's private data file (its name, place and layout are
internals), so the 25 tables that `CodonTable.load()` offers are stored here.

Layout: id -> (names, AAs, Init); AAs / Init are the 64-letter rows of NCBI's gc.prt in
TCAG order (first base slowest): codon number 16*i + 4*j + k is "TCAG"[i] + "TCAG"[j] +
"TCAG"[k]; a start codon is marked with 'i' in Init.

Provenance: snapshot of the data shipped with biotite (gc.prt 4.2 with the start rows of that
release) taken 2026-09-27.  The AAs rows were compared with an independent transcription of
NCBI's "The Genetic Codes" page: 21 of 25 rows are identical; tables 27, 28, 29 and 30 differ
in exactly one codon (CTG: 'A' here, 'L' at NCBI since gc.prt 4.3) - see CTG_LEU_AT_NCBI and
notes/audit/C03_applied.md ("candidate findings").  The Init rows are the ones of the
snapshot (NCBI has revised start codons several times); only table 1 has an independent
anchor for them (in the property module).
"""

TABLES = {
    1: (
        ['Standard'],
        "FFLLSSSSYY**CC*WLLLLPPPPHHQQRRRRIIIMTTTTNNKKSSRRVVVVAAAADDEEGGGG",
        "---i---------------i---------------i----------------------------",
    ),
    2: (
        ['Vertebrate Mitochondrial'],
        "FFLLSSSSYY**CCWWLLLLPPPPHHQQRRRRIIMMTTTTNNKKSS**VVVVAAAADDEEGGGG",
        "--------------------------------iiii---------------i------------",
    ),
    3: (
        ['Yeast Mitochondrial'],
        "FFLLSSSSYY**CCWWTTTTPPPPHHQQRRRRIIMMTTTTNNKKSSRRVVVVAAAADDEEGGGG",
        "----------------------------------ii----------------------------",
    ),
    4: (
        ['Mold Mitochondrial', 'Protozoan Mitochondrial', 'Coelenterate Mitochondrial', 'Mycoplasma', 'Spiroplasma'],
        "FFLLSSSSYY**CCWWLLLLPPPPHHQQRRRRIIIMTTTTNNKKSSRRVVVVAAAADDEEGGGG",
        "--ii---------------i------------iiii---------------i------------",
    ),
    5: (
        ['Invertebrate Mitochondrial'],
        "FFLLSSSSYY**CCWWLLLLPPPPHHQQRRRRIIMMTTTTNNKKSSSSVVVVAAAADDEEGGGG",
        "---i----------------------------iiii---------------i------------",
    ),
    6: (
        ['Ciliate Nuclear', 'Dasycladacean Nuclear', 'Hexamita Nuclear'],
        "FFLLSSSSYYQQCC*WLLLLPPPPHHQQRRRRIIIMTTTTNNKKSSRRVVVVAAAADDEEGGGG",
        "-----------------------------------i----------------------------",
    ),
    9: (
        ['Echinoderm Mitochondrial', 'Flatworm Mitochondrial'],
        "FFLLSSSSYY**CCWWLLLLPPPPHHQQRRRRIIIMTTTTNNNKSSSSVVVVAAAADDEEGGGG",
        "-----------------------------------i---------------i------------",
    ),
    10: (
        ['Euplotid Nuclear'],
        "FFLLSSSSYY**CCCWLLLLPPPPHHQQRRRRIIIMTTTTNNKKSSRRVVVVAAAADDEEGGGG",
        "-----------------------------------i----------------------------",
    ),
    11: (
        ['Bacterial, Archaeal and Plant Plastid'],
        "FFLLSSSSYY**CC*WLLLLPPPPHHQQRRRRIIIMTTTTNNKKSSRRVVVVAAAADDEEGGGG",
        "---i---------------i------------iiii---------------i------------",
    ),
    12: (
        ['Alternative Yeast Nuclear'],
        "FFLLSSSSYY**CC*WLLLSPPPPHHQQRRRRIIIMTTTTNNKKSSRRVVVVAAAADDEEGGGG",
        "-------------------i---------------i----------------------------",
    ),
    13: (
        ['Ascidian Mitochondrial'],
        "FFLLSSSSYY**CCWWLLLLPPPPHHQQRRRRIIMMTTTTNNKKSSGGVVVVAAAADDEEGGGG",
        "---i------------------------------ii---------------i------------",
    ),
    14: (
        ['Alternative Flatworm Mitochondrial'],
        "FFLLSSSSYYY*CCWWLLLLPPPPHHQQRRRRIIIMTTTTNNNKSSSSVVVVAAAADDEEGGGG",
        "-----------------------------------i----------------------------",
    ),
    15: (
        ['Blepharisma Macronuclear'],
        "FFLLSSSSYY*QCC*WLLLLPPPPHHQQRRRRIIIMTTTTNNKKSSRRVVVVAAAADDEEGGGG",
        "-----------------------------------i----------------------------",
    ),
    16: (
        ['Chlorophycean Mitochondrial'],
        "FFLLSSSSYY*LCC*WLLLLPPPPHHQQRRRRIIIMTTTTNNKKSSRRVVVVAAAADDEEGGGG",
        "-----------------------------------i----------------------------",
    ),
    21: (
        ['Trematode Mitochondrial'],
        "FFLLSSSSYY**CCWWLLLLPPPPHHQQRRRRIIMMTTTTNNNKSSSSVVVVAAAADDEEGGGG",
        "-----------------------------------i---------------i------------",
    ),
    22: (
        ['Scenedesmus obliquus Mitochondrial'],
        "FFLLSS*SYY*LCC*WLLLLPPPPHHQQRRRRIIIMTTTTNNKKSSRRVVVVAAAADDEEGGGG",
        "-----------------------------------i----------------------------",
    ),
    23: (
        ['Thraustochytrium Mitochondrial'],
        "FF*LSSSSYY**CC*WLLLLPPPPHHQQRRRRIIIMTTTTNNKKSSRRVVVVAAAADDEEGGGG",
        "--------------------------------i--i---------------i------------",
    ),
    24: (
        ['Pterobranchia Mitochondrial'],
        "FFLLSSSSYY**CCWWLLLLPPPPHHQQRRRRIIIMTTTTNNKKSSSKVVVVAAAADDEEGGGG",
        "---i---------------i---------------i---------------i------------",
    ),
    25: (
        ['Candidate Division SR1 and Gracilibacteria'],
        "FFLLSSSSYY**CCGWLLLLPPPPHHQQRRRRIIIMTTTTNNKKSSRRVVVVAAAADDEEGGGG",
        "---i-------------------------------i---------------i------------",
    ),
    26: (
        ['Pachysolen tannophilus Nuclear'],
        "FFLLSSSSYY**CC*WLLLAPPPPHHQQRRRRIIIMTTTTNNKKSSRRVVVVAAAADDEEGGGG",
        "-------------------i---------------i----------------------------",
    ),
    27: (
        ['Karyorelict Nuclear'],
        "FFLLSSSSYYQQCCWWLLLAPPPPHHQQRRRRIIIMTTTTNNKKSSRRVVVVAAAADDEEGGGG",
        "-----------------------------------i----------------------------",
    ),
    28: (
        ['Condylostoma Nuclear'],
        "FFLLSSSSYYQQCCWWLLLAPPPPHHQQRRRRIIIMTTTTNNKKSSRRVVVVAAAADDEEGGGG",
        "-----------------------------------i----------------------------",
    ),
    29: (
        ['Mesodinium Nuclear'],
        "FFLLSSSSYYYYCC*WLLLAPPPPHHQQRRRRIIIMTTTTNNKKSSRRVVVVAAAADDEEGGGG",
        "-----------------------------------i----------------------------",
    ),
    30: (
        ['Peritrich Nuclear'],
        "FFLLSSSSYYEECC*WLLLAPPPPHHQQRRRRIIIMTTTTNNKKSSRRVVVVAAAADDEEGGGG",
        "-----------------------------------i----------------------------",
    ),
    31: (
        ['Blastocrithidia Nuclear'],
        "FFLLSSSSYYEECCWWLLLLPPPPHHQQRRRRIIIMTTTTNNKKSSRRVVVVAAAADDEEGGGG",
        "-----------------------------------i----------------------------",
    ),
}

# Tables whose CTG entry is 'A' in the snapshot but 'L' in NCBI's current tables (gc.prt 4.3:
# "Change to CTG -> Leu in genetic codes 27, 28, 29, 30").  The check accepts either letter for
# this one codon of these four tables (and reports which one it saw).
CTG_LEU_AT_NCBI = (27, 28, 29, 30)

_B = "TCAG"
CODONS_TCAG = [a + b + c for a in _B for b in _B for c in _B]


def table(table_id):
    """-> (names, {codon: amino acid}, [start codons])"""
    names, aa, init = TABLES[table_id]
    assert len(aa) == len(init) == 64
    mapping = {c: aa[i] for i, c in enumerate(CODONS_TCAG)}
    starts = [c for i, c in enumerate(CODONS_TCAG) if init[i] == "i"]
    return list(names), mapping, starts
