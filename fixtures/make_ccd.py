"""
Synthetic Chemical Component Dictionary (DESIGN.md section 1).

The real ``components.bcif`` is absent in this sandbox.  Code that needs it is
driven through the public ``biotite.structure.info.set_ccd_path()`` with this
small dictionary: canonical amino acids / nucleotides (so that link types,
one-letter codes and filters work) plus invented ligands that cover every
intra-residue bond type.

``COMPONENTS`` is also the source of truth for the checks (names, atoms and
bonds a generated residue may use).
"""

import os
from pathlib import Path

import numpy as np

HERE = Path(__file__).resolve().parent
CCD_DIR = HERE / "ccd"
CCD_PATH = CCD_DIR / "components.bcif"

# order string, aromatic flag -> as in chem_comp_bond
S, D, T, Q = "SING", "DOUB", "TRIP", "QUAD"

_PEPTIDE_BB = [("N", "N"), ("CA", "C"), ("C", "C"), ("O", "O"), ("OXT", "O")]
_PEPTIDE_BB_BONDS = [("N", "CA", S, "N"), ("CA", "C", S, "N"), ("C", "O", D, "N"), ("C", "OXT", S, "N")]


def _pep(name, one, full, side_atoms, side_bonds):
    return {
        "id": name,
        "name": full,
        "type": "L-PEPTIDE LINKING",
        "one": one,
        "atoms": _PEPTIDE_BB + side_atoms,
        "bonds": _PEPTIDE_BB_BONDS + side_bonds,
    }


_NUC_BB = [
    ("P", "P"), ("OP1", "O"), ("OP2", "O"), ("O5'", "O"), ("C5'", "C"), ("C4'", "C"),
    ("O4'", "O"), ("C3'", "C"), ("O3'", "O"), ("C2'", "C"), ("C1'", "C"),
]
_NUC_BB_BONDS = [
    ("P", "OP1", D, "N"), ("P", "OP2", S, "N"), ("P", "O5'", S, "N"), ("O5'", "C5'", S, "N"),
    ("C5'", "C4'", S, "N"), ("C4'", "O4'", S, "N"), ("C4'", "C3'", S, "N"), ("C3'", "O3'", S, "N"),
    ("C3'", "C2'", S, "N"), ("C2'", "C1'", S, "N"), ("O4'", "C1'", S, "N"),
]


def _nuc(name, one, full, typ, base_atoms, base_bonds, ribo):
    atoms = list(_NUC_BB)
    bonds = list(_NUC_BB_BONDS)
    if ribo:
        atoms.append(("O2'", "O"))
        bonds.append(("C2'", "O2'", S, "N"))
    return {
        "id": name, "name": full, "type": typ, "one": one,
        "atoms": atoms + base_atoms, "bonds": bonds + base_bonds,
    }


_PYR = [("N1", "N"), ("C2", "C"), ("N3", "N"), ("C4", "C"), ("C5", "C"), ("C6", "C")]
_PYR_BONDS = [
    ("C1'", "N1", S, "N"), ("N1", "C2", S, "Y"), ("C2", "N3", D, "Y"), ("N3", "C4", S, "Y"),
    ("C4", "C5", D, "Y"), ("C5", "C6", S, "Y"), ("C6", "N1", D, "Y"),
]
_PUR = [("N9", "N"), ("C8", "C"), ("N7", "N"), ("C5", "C"), ("C6", "C"), ("N1", "N"), ("C2", "C"), ("N3", "N"), ("C4", "C")]
_PUR_BONDS = [
    ("C1'", "N9", S, "N"), ("N9", "C8", S, "Y"), ("C8", "N7", D, "Y"), ("N7", "C5", S, "Y"),
    ("C5", "C6", S, "Y"), ("C6", "N1", D, "Y"), ("N1", "C2", S, "Y"), ("C2", "N3", D, "Y"),
    ("N3", "C4", S, "Y"), ("C4", "C5", D, "Y"), ("C4", "N9", S, "Y"),
]

COMPONENTS = [
    _pep("ALA", "A", "ALANINE", [("CB", "C")], [("CA", "CB", S, "N")]),
    _pep("GLY", "G", "GLYCINE", [], []),
    _pep("SER", "S", "SERINE", [("CB", "C"), ("OG", "O")], [("CA", "CB", S, "N"), ("CB", "OG", S, "N")]),
    _pep("CYS", "C", "CYSTEINE", [("CB", "C"), ("SG", "S")], [("CA", "CB", S, "N"), ("CB", "SG", S, "N")]),
    _pep(
        "PHE", "F", "PHENYLALANINE",
        [("CB", "C"), ("CG", "C"), ("CD1", "C"), ("CD2", "C"), ("CE1", "C"), ("CE2", "C"), ("CZ", "C")],
        [
            ("CA", "CB", S, "N"), ("CB", "CG", S, "N"), ("CG", "CD1", D, "Y"), ("CG", "CD2", S, "Y"),
            ("CD1", "CE1", S, "Y"), ("CD2", "CE2", D, "Y"), ("CE1", "CZ", D, "Y"), ("CE2", "CZ", S, "Y"),
        ],
    ),
    _pep("LYS", "K", "LYSINE", [("CB", "C"), ("CG", "C"), ("CD", "C"), ("CE", "C"), ("NZ", "N")],
         [("CA", "CB", S, "N"), ("CB", "CG", S, "N"), ("CG", "CD", S, "N"), ("CD", "CE", S, "N"), ("CE", "NZ", S, "N")]),
    _nuc("A", "A", "ADENOSINE-5'-MONOPHOSPHATE", "RNA LINKING", _PUR + [("N6", "N")], _PUR_BONDS + [("C6", "N6", S, "N")], True),
    _nuc("G", "G", "GUANOSINE-5'-MONOPHOSPHATE", "RNA LINKING", _PUR + [("O6", "O"), ("N2", "N")], _PUR_BONDS + [("C6", "O6", D, "N"), ("C2", "N2", S, "N")], True),
    _nuc("C", "C", "CYTIDINE-5'-MONOPHOSPHATE", "RNA LINKING", _PYR + [("O2", "O"), ("N4", "N")], _PYR_BONDS + [("C2", "O2", D, "N"), ("C4", "N4", S, "N")], True),
    _nuc("U", "U", "URIDINE-5'-MONOPHOSPHATE", "RNA LINKING", _PYR + [("O2", "O"), ("O4", "O")], _PYR_BONDS + [("C2", "O2", D, "N"), ("C4", "O4", D, "N")], True),
    _nuc("DA", "A", "2'-DEOXYADENOSINE-5'-MONOPHOSPHATE", "DNA LINKING", _PUR + [("N6", "N")], _PUR_BONDS + [("C6", "N6", S, "N")], False),
    _nuc("DT", "T", "THYMIDINE-5'-MONOPHOSPHATE", "DNA LINKING", _PYR + [("O2", "O"), ("O4", "O"), ("C7", "C")], _PYR_BONDS + [("C2", "O2", D, "N"), ("C4", "O4", D, "N"), ("C5", "C7", S, "N")], False),
    {"id": "HOH", "name": "WATER", "type": "NON-POLYMER", "one": "?", "atoms": [("O", "O"), ("H1", "H"), ("H2", "H")],
     "bonds": [("O", "H1", S, "N"), ("O", "H2", S, "N")]},
    {"id": "ZN", "name": "ZINC ION", "type": "NON-POLYMER", "one": "?", "atoms": [("ZN", "ZN")], "bonds": []},
    {"id": "GLC", "name": "ALPHA-D-GLUCOPYRANOSE", "type": "D-SACCHARIDE, ALPHA LINKING", "one": "?",
     "atoms": [("C1", "C"), ("C2", "C"), ("C3", "C"), ("C4", "C"), ("C5", "C"), ("C6", "C"), ("O1", "O"), ("O5", "O"), ("O6", "O")],
     "bonds": [("C1", "C2", S, "N"), ("C2", "C3", S, "N"), ("C3", "C4", S, "N"), ("C4", "C5", S, "N"), ("C5", "C6", S, "N"),
               ("C1", "O1", S, "N"), ("C1", "O5", S, "N"), ("C5", "O5", S, "N"), ("C6", "O6", S, "N")]},
    # invented ligand with every intra-residue bond type the CCD can express
    {"id": "LIG", "name": "VERIF LIGAND", "type": "NON-POLYMER", "one": "?",
     "atoms": [("C1", "C"), ("C2", "C"), ("C3", "C"), ("C4", "C"), ("C5", "C"), ("C6", "C"), ("O1", "O"), ("N1", "N"),
               ("C7", "C"), ("S1", "S"), ("FE", "FE"), ("CL", "CL"), ("H1", "H"), ("C8", "C"), ("C9", "C")],
     "bonds": [("C1", "C2", D, "Y"), ("C2", "C3", S, "Y"), ("C3", "C4", D, "Y"), ("C4", "C5", S, "Y"), ("C5", "C6", D, "Y"),
               ("C6", "C1", S, "Y"), ("C1", "O1", D, "N"), ("C7", "N1", T, "N"), ("C2", "C7", S, "N"), ("C3", "S1", S, "N"),
               ("FE", "CL", Q, "N"), ("C4", "H1", S, "N"), ("C8", "C9", T, "Y")]},
    # component known to the dictionary but without any bond record
    {"id": "XYZ", "name": "VERIF NO BONDS", "type": "NON-POLYMER", "one": "?",
     "atoms": [("X1", "C"), ("X2", "N"), ("X3", "O")], "bonds": []},
    # D-peptide and a peptide-like component (link type variety)
    {"id": "DAL", "name": "D-ALANINE", "type": "D-PEPTIDE LINKING", "one": "A",
     "atoms": _PEPTIDE_BB + [("CB", "C")], "bonds": _PEPTIDE_BB_BONDS + [("CA", "CB", S, "N")]},
]

BY_ID = {c["id"]: c for c in COMPONENTS}


def build_file():
    from biotite.structure.io.pdbx import BinaryCIFBlock, BinaryCIFCategory, BinaryCIFFile

    comp_id, name, typ, one, weight = [], [], [], [], []
    a_comp, a_id, a_alt, a_el, a_charge, a_x, a_y, a_z, a_arom, a_leave, a_stereo = ([] for _ in range(11))
    b_comp, b_a1, b_a2, b_order, b_arom, b_stereo, b_ord = ([] for _ in range(7))
    for c in COMPONENTS:
        comp_id.append(c["id"])
        name.append(c["name"])
        typ.append(c["type"])
        one.append(c["one"])
        weight.append(10.0 * len(c["atoms"]))
        for k, (an, el) in enumerate(c["atoms"]):
            a_comp.append(c["id"])
            a_id.append(an)
            a_alt.append(an)
            a_el.append(el)
            a_charge.append(0)
            a_x.append(1.5 * k)
            a_y.append(0.5 * (k % 3))
            a_z.append(0.25 * (k % 5))
            a_arom.append("N")
            a_leave.append("Y" if an == "OXT" else "N")
            a_stereo.append("N")
        for k, (x, y, order, arom) in enumerate(c["bonds"]):
            b_comp.append(c["id"])
            b_a1.append(x)
            b_a2.append(y)
            b_order.append(order)
            b_arom.append(arom)
            b_stereo.append("N")
            b_ord.append(k + 1)
    block = BinaryCIFBlock()
    block["chem_comp"] = BinaryCIFCategory(
        {
            "id": np.array(comp_id),
            "name": np.array(name),
            "type": np.array(typ),
            "one_letter_code": np.array(one),
            "formula_weight": np.array(weight, dtype=np.float32),
        }
    )
    xs = np.array(a_x, dtype=np.float32)
    ys = np.array(a_y, dtype=np.float32)
    zs = np.array(a_z, dtype=np.float32)
    block["chem_comp_atom"] = BinaryCIFCategory(
        {
            "comp_id": np.array(a_comp),
            "atom_id": np.array(a_id),
            "alt_atom_id": np.array(a_alt),
            "type_symbol": np.array(a_el),
            "charge": np.array(a_charge, dtype=np.int32),
            "pdbx_aromatic_flag": np.array(a_arom),
            "pdbx_leaving_atom_flag": np.array(a_leave),
            "pdbx_stereo_config": np.array(a_stereo),
            "model_Cartn_x": xs,
            "model_Cartn_y": ys,
            "model_Cartn_z": zs,
            "pdbx_model_Cartn_x_ideal": xs,
            "pdbx_model_Cartn_y_ideal": ys,
            "pdbx_model_Cartn_z_ideal": zs,
        }
    )
    block["chem_comp_bond"] = BinaryCIFCategory(
        {
            "comp_id": np.array(b_comp),
            "atom_id_1": np.array(b_a1),
            "atom_id_2": np.array(b_a2),
            "value_order": np.array(b_order),
            "pdbx_aromatic_flag": np.array(b_arom),
            "pdbx_stereo_config": np.array(b_stereo),
            "pdbx_ordinal": np.array(b_ord, dtype=np.int32),
        }
    )
    f = BinaryCIFFile()
    f["components"] = block
    return f


def ensure():
    """Create the dictionary file if it is missing or older than this module."""
    me = Path(__file__)
    if CCD_PATH.exists() and CCD_PATH.stat().st_mtime >= me.stat().st_mtime:
        return CCD_PATH
    CCD_DIR.mkdir(exist_ok=True)
    tmp = CCD_DIR / f"components.{os.getpid()}.tmp"
    build_file().write(str(tmp))
    os.replace(tmp, CCD_PATH)
    return CCD_PATH


def use():
    """Point biotite at the synthetic dictionary (public API, clears biotite's caches)."""
    import biotite.structure.info as info

    info.set_ccd_path(ensure())
    # module-level caches that set_ccd_path() does not know about
    import biotite.structure.info.bonds as ib

    if hasattr(ib, "_intra_bonds"):
        ib._intra_bonds = {}


if __name__ == "__main__":
    print(ensure())
