#!/venv/bin/python
"""
Entry point of every registered check.

    vcheck.py <Cxx> [--tier quick|thorough] [--replay FILE]

Environment: VERIF_SEED (default 1), VERIF_TIER (overridden by --tier),
VERIF_SHARDS (default 16), VERIF_BUDGET_S (soft wall budget),
VERIF_SCALE (multiplies every example budget), VERIF_ONLY_SUB (debugging).
"""
import argparse
import os
import sys
from pathlib import Path

ROOT = Path(__file__).resolve().parent
sys.path.insert(0, str(ROOT))


def main():
    ap = argparse.ArgumentParser()
    ap.add_argument("prop")
    ap.add_argument("--tier", default=os.environ.get("VERIF_TIER", "quick"), choices=["quick", "thorough"])
    ap.add_argument("--replay", default=None)
    args = ap.parse_args()
    try:
        seed = int(os.environ.get("VERIF_SEED", "1"))
    except ValueError:
        seed = 1
    from vlib import runner

    os.chdir(ROOT)
    if args.replay:
        return runner.replay(args.prop.upper(), args.replay)
    return runner.run_check(args.prop.upper(), args.tier, seed)


if __name__ == "__main__":
    try:
        code = main()
    except SystemExit:
        raise
    except BaseException as e:  # noqa: BLE001
        import traceback

        traceback.print_exc()
        code = 2
    sys.exit(code)
